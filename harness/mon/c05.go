package mon

import (
	goErr "errors"
	"fmt"
	"sort"
	"strings"

	"github.com/cockroachdb/errors"
	"github.com/cockroachdb/errors/errbase"
	"github.com/cockroachdb/errors/errorspb"
	"github.com/cockroachdb/errors/extgrpc"
	"github.com/cockroachdb/errors/exthttp"
	"github.com/cockroachdb/redact"
	gogorpc "github.com/gogo/googleapis/google/rpc"
	"github.com/gogo/protobuf/proto"
	"github.com/gogo/protobuf/types"

	"verifharness/core"
	"verifharness/gen"
	"verifharness/obs"
	"verifharness/sim"
)

type regKey struct{ kind, key string }

// registryKeys enumerates the decoder registries of the live library.
func registryKeys() []regKey {
	m := errbase.VerifRegisteredKeys()
	var out []regKey
	for _, kind := range []string{"leafDecoders", "decoders", "multiCauseDecoders"} {
		for _, k := range m[kind] {
			out = append(out, regKey{kind, k})
		}
	}
	// types with an encoder but no decoder, and an entirely unknown type
	seen := map[string]bool{}
	for _, r := range out {
		seen[r.key] = true
	}
	for _, k := range m["leafEncoders"] {
		if !seen[k] {
			out = append(out, regKey{"leafDecoders", k})
		}
	}
	for _, k := range m["encoders"] {
		if !seen[k] {
			out = append(out, regKey{"decoders", k})
		}
	}
	out = append(out, regKey{"leafDecoders", "no/such.Type"}, regKey{"decoders", "no/such.Wrapper"}, regKey{"multiCauseDecoders", "no/such.Multi"})
	sort.Slice(out, func(i, j int) bool { return out[i].kind+out[i].key < out[j].kind+out[j].key })
	return out
}

var regKeysCache []regKey

func regKeys() []regKey {
	if regKeysCache == nil {
		regKeysCache = registryKeys()
	}
	return regKeysCache
}

func init() {
	core.Register(&core.Prop{
		ID: "C05", Level: "fault_enumeration",
		Technique: "fault enumeration at the decoder boundary: for every registered decoder key (read from the live registries through the verif hook) the product of payload / detail / message-type faults at five positions, then use of the decoded error through every public operation; plus byte-level wire fuzzing of valid encodings, kept when they unmarshal into a complete message",
		Rule: "cases 0..K*P-1: one per (registered decoder key, payload fault) (K read at run time; also encoder-only keys and unknown keys): payload faults {absent, 19 messages of other / right type with full, partial or empty fields, unregistered Any, undecodable Any} x reportable-detail sets {none, one, two, one empty} x message type {0,1,7} (wrappers) x multi-cause count {0,2} (leaves) x positions {top, under a library wrapper, multi-cause branch, barrier payload, secondary payload} (quick tier: the four non-top positions only with the one-detail set). " +
			"Remaining cases: every third one is a message-level fuzz (25 mutants of a valid encoding: a node's family name replaced by another registered key, payloads swapped / dropped, reportable strings added / removed, message type changed, branches grown / dropped, type keys swapped between nodes); the others are wire fuzz — a valid encoding of a generated tree, 40 byte-level mutants each (bit flips, varint edits, truncation, duplication, splicing); mutants that unmarshal into a complete EncodedError are decoded and exercised. " +
			"Non-trivial = a (key, payload fault, detail set, message type, position) tuple or a kept mutant whose decoded tree differs from the unmutated one; distinct = distinct tuple / distinct mutant bytes.",
		Cases: func(t string) int { return len(regKeys())*len(payloadFaults()) + tierN(600, 60000)(t) },
		Floor: tierN(500, 5000),
		Run:   runC05,
		Assumptions: []string{"'structurally complete' is applied recursively, also to EncodedErrors nested in Any payloads", "a process-fatal event is attributed by the parent to the last journalled case"},
	})
}

func anyOf(m proto.Message) *types.Any {
	a, err := types.MarshalAny(m)
	if err != nil {
		panic(err)
	}
	return a
}

type payloadFault struct {
	name string
	any  *types.Any
}

func payloadFaults() []payloadFault {
	leafE := errors.EncodeError(sim.Ctx, goErr.New("nested"))
	emptyLeaf := errorspb.EncodedError{Error: &errorspb.EncodedError_Leaf{Leaf: &errorspb.EncodedErrorLeaf{}}}
	return []payloadFault{
		{"absent", nil},
		{"String", anyOf(&errorspb.StringPayload{Msg: "s"})},
		{"StringEmpty", anyOf(&errorspb.StringPayload{})},
		{"Strings0", anyOf(&errorspb.StringsPayload{})},
		{"Strings1", anyOf(&errorspb.StringsPayload{Details: []string{"a"}})},
		{"Strings2", anyOf(&errorspb.StringsPayload{Details: []string{"a", "b"}})},
		{"Strings3", anyOf(&errorspb.StringsPayload{Details: []string{"a", "b", "c"}})},
		{"Tags0", anyOf(&errorspb.TagsPayload{})},
		{"Tags1", anyOf(&errorspb.TagsPayload{Tags: []errorspb.TagPayload{{Tag: "k", Value: "v"}}})},
		{"Mark0", anyOf(&errorspb.MarkPayload{Msg: "m"})},
		{"MarkEmpty", anyOf(&errorspb.MarkPayload{})},
		{"Mark1", anyOf(&errorspb.MarkPayload{Msg: "m", Types: []errorspb.ErrorTypeMark{{FamilyName: "f"}}})},
		{"Errno", anyOf(&errorspb.ErrnoPayload{OrigErrno: 2, Arch: "x:y", IsNotExist: true})},
		{"ErrnoEmpty", anyOf(&errorspb.ErrnoPayload{})},
		{"EncodedLeaf", anyOf(&leafE)},
		{"EncodedEmptyLeaf", anyOf(&emptyLeaf)},
		{"HTTP", anyOf(&exthttp.EncodedHTTPCode{Code: 404})},
		{"HTTPEmpty", anyOf(&exthttp.EncodedHTTPCode{})},
		{"GRPC", anyOf(&extgrpc.EncodedGrpcCode{Code: 5})},
		{"GRPCEmpty", anyOf(&extgrpc.EncodedGrpcCode{})},
		{"Status", anyOf(&gogorpc.Status{Code: 5, Message: "m"})},
		{"StatusEmpty", anyOf(&gogorpc.Status{})},
		{"TestError", anyOf(&errorspb.TestError{})},
		{"unregistered", &types.Any{TypeUrl: "type.googleapis.com/no.such.Type", Value: []byte{1, 2, 3}}},
		{"garbage", &types.Any{TypeUrl: "type.googleapis.com/cockroach.errorspb.StringPayload", Value: []byte{0xff, 0xff, 0xff}}},
		{"emptyurl", &types.Any{}},
	}
}

// exercise uses a decoded error through every public operation and
// returns the operations that panicked (or printed PANIC=).
func exercise(d error) (bad []string) {
	try := func(name string, f func()) {
		if p := core.Try(f); p != nil {
			bad = append(bad, fmt.Sprintf("%s: %v", name, p))
		}
	}
	chk := func(name, s string) {
		if i := strings.Index(s, "PANIC="); i >= 0 {
			e := i + 160
			if e > len(s) {
				e = len(s)
			}
			bad = append(bad, name+": "+s[i:e])
		}
	}
	try("Error", func() { _ = d.Error() })
	for _, v := range []string{"%v", "%s", "%+v", "%q", "%x", "%X", "%#v", "%d", "%10.3v", "%-8q"} {
		v := v
		try("fmt"+v, func() { chk("fmt"+v, fmt.Sprintf(v, d)) })
		try("formattable"+v, func() { chk("formattable"+v, fmt.Sprintf(v, errors.Formattable(d))) })
		try("redact"+v, func() { chk("redact"+v, string(redact.Sprintf(v, d).Redact())) })
	}
	try("report", func() {
		ev, _ := errors.BuildSentryReport(d)
		if ev == nil {
			panic("nil event")
		}
		chk("report", ev.Message)
	})
	try("safedetails", func() {
		for _, c := range obs.Nodes(d) {
			errors.GetSafeDetails(c)
			errors.GetReportableStackTrace(c)
		}
		errors.GetAllSafeDetails(d)
	})
	try("encode", func() {
		enc := errors.EncodeError(sim.Ctx, d)
		if _, err := proto.Marshal(&enc); err != nil {
			panic(err)
		}
	})
	try("accessors", func() { obs.Annotations(d); errors.UnwrapAll(d); errors.Cause(d); errors.Unwrap(d) })
	try("is", func() {
		errors.Is(d, d)
		errors.IsAny(d, d, goErr.New("x"))
		var t *errorspb.TestError
		errors.As(d, &t)
		errors.HasType(d, (*gen.NoFmtLeaf)(nil))
	})
	try("rehop", func() {
		x, _ := sim.Hop(d)
		if x == nil {
			panic("nil after re-hop")
		}
		_ = x.Error()
		chk("rehop%+v", fmt.Sprintf("%+v", x))
	})
	return
}

func opOf(s string) string {
	if i := strings.Index(s, ":"); i > 0 {
		return s[:i]
	}
	return s
}

// place puts msg at a position of a carrier.
func place(msg errorspb.EncodedError, pos int) errorspb.EncodedError {
	switch pos {
	case 0:
		return msg
	case 1: // under a library wrapper
		carrier := errors.EncodeError(sim.Ctx, errors.Wrap(goErr.New("x"), "carrier"))
		w := carrier.GetWrapper()
		w.Cause.GetWrapper().Cause = msg
		return carrier
	case 2: // as a multi-cause branch
		carrier := errors.EncodeError(sim.Ctx, goErr.Join(goErr.New("a"), goErr.New("b")))
		carrier.GetLeaf().MultierrorCauses[1] = &msg
		return carrier
	case 3: // inside a barrier's payload
		carrier := errors.EncodeError(sim.Ctx, errors.Handled(goErr.New("x")))
		carrier.GetLeaf().Details.FullDetails = anyOf(&msg)
		return carrier
	default: // inside a secondary error's payload
		carrier := errors.EncodeError(sim.Ctx, errors.WithSecondaryError(goErr.New("x"), goErr.New("y")))
		carrier.GetWrapper().Details.FullDetails = anyOf(&msg)
		return carrier
	}
}

var posNames = []string{"top", "under-wrapper", "multi-branch", "barrier-payload", "secondary-payload"}

func decodeAndExercise(c *core.Ctx, enc errorspb.EncodedError, sigBase, descr string) {
	var d error
	b := sim.Marshal(enc)
	enc2, err := sim.Unmarshal(b)
	if err != nil {
		return
	}
	var bad []string
	if p := core.Try(func() { d = errors.DecodeError(sim.Ctx, enc2) }); p != nil {
		bad = append(bad, fmt.Sprintf("decode-panic: %v", p))
	} else if d == nil {
		bad = append(bad, "decode-nil: DecodeError returned nil")
	} else {
		bad = append(bad, exercise(d)...)
	}
	c.Count("decoded-and-exercised", 1)
	for _, x := range bad {
		c.Violate(sigBase+"/"+opOf(x), "decoding a structurally complete message, or using the result, panics", fmt.Sprintf("%s\n%s\nmessage: %s", descr, x, trimS(enc2.String(), 1500)))
	}
}

func runC05(c *core.Ctx) {
	keys := regKeys()
	pfs := payloadFaults()
	if c.Case < len(keys)*len(pfs) {
		sweepKey(c, keys[c.Case/len(pfs)], pfs[c.Case%len(pfs)])
		return
	}
	if c.Case%3 == 0 {
		structFuzzCase(c)
		return
	}
	fuzzCase(c)
}

// structFuzzCase mutates a valid encoding at the message level: real
// payloads meet decoders of other registered types at arbitrary positions
// of real trees.
func structFuzzCase(c *core.Ctx) {
	g := gen.New(c.R)
	t := g.Tree(2 + c.R.Intn(5))
	coverTree(c, t)
	var base errorspb.EncodedError
	if p := core.Try(func() { base, _ = sim.Unmarshal(sim.EncBytes(gen.Build(t))) }); p != nil {
		return
	}
	keys := regKeys()
	r := c.R
	for m := 0; m < 25; m++ {
		enc, _ := sim.Unmarshal(sim.Marshal(base)) // deep copy
		var ds []*errorspb.EncodedErrorDetails
		var ws []*errorspb.EncodedWrapper
		var ls []*errorspb.EncodedErrorLeaf
		var walk func(e *errorspb.EncodedError)
		walk = func(e *errorspb.EncodedError) {
			if w := e.GetWrapper(); w != nil {
				ds = append(ds, &w.Details)
				ws = append(ws, w)
				walk(&w.Cause)
			} else if l := e.GetLeaf(); l != nil {
				ds = append(ds, &l.Details)
				ls = append(ls, l)
				for _, x := range l.MultierrorCauses {
					walk(x)
				}
			}
		}
		walk(&enc)
		if len(ds) == 0 {
			return
		}
		var what []string
		for k, n := 0, 1+r.Intn(3); k < n; k++ {
			d := ds[r.Intn(len(ds))]
			switch r.Intn(8) {
			case 0: // another registered type key meets this node's real payload
				rk := keys[r.Intn(len(keys))]
				d.ErrorTypeMark.FamilyName = rk.key
				what = append(what, "family:="+famShort(rk.key))
			case 1: // swap payloads between two nodes
				o := ds[r.Intn(len(ds))]
				d.FullDetails, o.FullDetails = o.FullDetails, d.FullDetails
				what = append(what, "swap-payload")
			case 2: // drop the payload
				d.FullDetails = nil
				what = append(what, "drop-payload")
			case 3: // fewer / more reportable strings
				if len(d.ReportablePayload) > 0 && r.Intn(2) == 0 {
					d.ReportablePayload = d.ReportablePayload[:len(d.ReportablePayload)-1]
					what = append(what, "fewer-details")
				} else {
					d.ReportablePayload = append(d.ReportablePayload, "extra")
					what = append(what, "extra-detail")
				}
			case 4: // message type
				if len(ws) > 0 {
					ws[r.Intn(len(ws))].MessageType = errorspb.MessageType(r.Intn(9))
					what = append(what, "message-type")
				}
			case 5: // a leaf grows causes / a multi-cause leaf loses them
				if len(ls) > 0 {
					l := ls[r.Intn(len(ls))]
					if len(l.MultierrorCauses) > 0 && r.Intn(2) == 0 {
						l.MultierrorCauses = l.MultierrorCauses[:len(l.MultierrorCauses)-1]
						what = append(what, "drop-branch")
					} else {
						x := errors.EncodeError(sim.Ctx, goErr.New("grown"))
						l.MultierrorCauses = append(l.MultierrorCauses, &x)
						what = append(what, "grow-branch")
					}
				}
			case 6: // empty strings everywhere in this node
				d.OriginalTypeName = ""
				d.ErrorTypeMark.Extension = "ext"
				what = append(what, "empty-typename")
			case 7: // swap type keys between two nodes (wrapper key on a leaf and vice versa)
				o := ds[r.Intn(len(ds))]
				d.ErrorTypeMark.FamilyName, o.ErrorTypeMark.FamilyName = o.ErrorTypeMark.FamilyName, d.ErrorTypeMark.FamilyName
				what = append(what, "swap-family")
			}
		}
		if !sim.Complete(&enc) {
			continue
		}
		c.Count("struct-fuzz-kept", 1)
		for _, w := range what {
			c.Cover("struct-mutation", strings.SplitN(w, ":", 2)[0])
		}
		c.Nontrivial(fmt.Sprintf("sfuzz/%x", sim.Marshal(enc)))
		decodeAndExercise(c, enc, "struct-fuzz", fmt.Sprintf("message-level mutations %v of the encoding of %s", what, t))
	}
	if c.Case%60 == 0 {
		c.Sample(map[string]interface{}{"struct_fuzz_base_tree": t.String(), "mutants": 25})
	}
}

func sweepKey(c *core.Ctx, rk regKey, pf payloadFault) {
	leafE := errors.EncodeError(sim.Ctx, goErr.New("nested"))
	detailSets := []struct {
		name string
		d    []string
	}{{"none", nil}, {"one", []string{"d1"}}, {"two", []string{"d1", "d2"}}, {"empty", []string{""}}, {"three", []string{"d1", "d2", "d3"}},
		// shaped like printed stack traces, and malformed in ways a printed stack never is
		{"stack", []string{"\nmain.f\n\t/src/f.go:12\nmain.g\n\t/src/g.go:34"}},
		{"stack-blank-line", []string{"main.f\n\t/src/f.go:12\n\nmain.g\n\t/src/g.go:34"}},
		{"stack-no-file", []string{"main.f\nmain.g"}},
		{"stack-bad-line", []string{"main.f\n\t/src/f.go:notanumber\n\t:\nunknown\n\t"}},
		{"stack-generic", []string{"pkg.Fn[...]\n\t/src/f.go:1\n]\n\tC:/x.go:2"}},
		{"newlines", []string{"\n\n", "\t", ":"}}}
	c.Cover("registry", rk.kind)
	c.Cover("decoder-key", famShort(rk.key))
	sampled := false
	{
		for _, ds := range detailSets {
			for _, mt := range []int32{0, 1, 7} {
				for _, nc := range []int{0, 2} {
					if rk.kind == "decoders" && nc > 0 {
						continue
					}
					if rk.kind != "decoders" && mt != 0 {
						continue
					}
					if rk.kind == "multiCauseDecoders" && nc == 0 {
						continue
					}
					details := errorspb.EncodedErrorDetails{OriginalTypeName: rk.key, ErrorTypeMark: errorspb.ErrorTypeMark{FamilyName: rk.key}, ReportablePayload: ds.d, FullDetails: pf.any}
					var msg errorspb.EncodedError
					if rk.kind == "decoders" {
						msg = errorspb.EncodedError{Error: &errorspb.EncodedError_Wrapper{Wrapper: &errorspb.EncodedWrapper{Cause: leafE, Message: "wmsg", Details: details, MessageType: errorspb.MessageType(mt)}}}
					} else {
						l := &errorspb.EncodedErrorLeaf{Message: "lmsg", Details: details}
						for i := 0; i < nc; i++ {
							cc := leafE
							l.MultierrorCauses = append(l.MultierrorCauses, &cc)
						}
						msg = errorspb.EncodedError{Error: &errorspb.EncodedError_Leaf{Leaf: l}}
					}
					for pos := 0; pos < 5; pos++ {
						// quick tier: non-top positions only with the one-detail set
						if c.Tier != "thorough" && pos > 0 && ds.name != "one" {
							continue
						}
						tuple := fmt.Sprintf("%s|%s|%s|mt%d|nc%d|%s", rk.key, pf.name, ds.name, mt, nc, posNames[pos])
						c.Nontrivial(tuple)
						c.Cover("payload-fault", pf.name)
						c.Cover("position", posNames[pos])
						placed := place(msg, pos)
						if !sim.Complete(&placed) {
							c.Count("skipped-incomplete", 1)
							continue
						}
						if !sampled && pf.name == "Strings1" && pos == 3 {
							sampled = true
							c.Sample(map[string]interface{}{"tuple": tuple, "message": trimS(placed.String(), 600)})
						}
						decodeAndExercise(c, placed, "sweep/"+famShort(rk.key), "tuple "+tuple)
					}
				}
			}
		}
	}
}

func fuzzCase(c *core.Ctx) {
	g := gen.New(c.R)
	g.Str = gen.HostileUTF8
	if c.R.Intn(2) == 0 {
		g.Str = gen.Regular
	}
	t := g.Tree(1 + c.R.Intn(6))
	coverTree(c, t)
	var base []byte
	if p := core.Try(func() { base = sim.EncBytes(gen.Build(t)) }); p != nil {
		return
	}
	var other []byte
	core.Try(func() { other = sim.EncBytes(gen.Build(g.Tree(1 + c.R.Intn(4)))) })
	r := c.R
	kept := 0
	baseShape := ""
	if e0, err := sim.Unmarshal(base); err == nil {
		baseShape = e0.String()
	}
	for m := 0; m < 40; m++ {
		b := append([]byte(nil), base...)
		nmut := 1 + r.Intn(3)
		for k := 0; k < nmut && len(b) > 0; k++ {
			switch r.Intn(7) {
			case 0: // bit flip
				i := r.Intn(len(b))
				b[i] ^= 1 << uint(r.Intn(8))
			case 1: // byte set
				b[r.Intn(len(b))] = byte(r.Intn(256))
			case 2: // small varint edit
				i := r.Intn(len(b))
				b[i] = byte(int(b[i]) + r.Intn(5) - 2)
			case 3: // delete a range
				i := r.Intn(len(b))
				j := i + r.Intn(8)
				if j > len(b) {
					j = len(b)
				}
				b = append(b[:i], b[j:]...)
			case 4: // duplicate a range
				i := r.Intn(len(b))
				j := i + r.Intn(16)
				if j > len(b) {
					j = len(b)
				}
				b = append(b[:j], append(append([]byte(nil), b[i:j]...), b[j:]...)...)
			case 5: // splice with another message
				if len(other) > 0 {
					i, j := r.Intn(len(b)), r.Intn(len(other))
					b = append(append([]byte(nil), b[:i]...), other[j:]...)
				}
			case 6: // zero a byte (often empties a length or a tag)
				b[r.Intn(len(b))] = 0
			}
		}
		c.Count("fuzz-mutants", 1)
		enc, err := sim.Unmarshal(b)
		if err != nil {
			c.Count("fuzz-rejected-by-unmarshal", 1)
			continue
		}
		if !sim.Complete(&enc) {
			c.Count("fuzz-incomplete", 1)
			continue
		}
		kept++
		c.Count("fuzz-kept", 1)
		if enc.String() != baseShape {
			c.Nontrivial(fmt.Sprintf("fuzz/%x", b))
		}
		decodeAndExercise(c, enc, "fuzz", fmt.Sprintf("fuzz of %s (mutant %d, %d bytes, hex %x)", t, m, len(b), b))
	}
	if c.Case%50 == 0 {
		c.Sample(map[string]interface{}{"fuzz_base_tree": t.String(), "mutants": 40, "kept_complete": kept})
	}
}
