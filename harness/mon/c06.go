package mon

import (
	"fmt"
	"regexp"
	"strings"

	"github.com/cockroachdb/errors"
	"github.com/cockroachdb/redact"

	"verifharness/core"
	"verifharness/gen"
	"verifharness/model"
)

func init() {
	core.Register(&core.Prop{
		ID: "C06", Level: "exploration",
		Technique: "trace-specification monitor: a marker scanner (balanced, never nested, balanced per line) over redactable renderings of hostile-string errors; byte-equality monitor redactable-stripped vs plain rendering for marker-free inputs; refusal-form monitor for unsupported verbs",
		Rule: "per case one tree (pairwise sweep twice, then PRNG depth<=6); string class by case index: hostile (incl. invalid UTF-8, local only) / hostile valid UTF-8 / regular. Stages: local, decoded at a knowing process (2 hops), opaque (all types unknown), unknowing-then-knowing. " +
			"Verbs %v %s %+v (well-formedness, congruence) and %q %x %X (refusal). Non-trivial = depth>=3 or multi-cause; distinct = kind-tree signature x string class.",
		Cases: func(t string) int { return 2*gen.SweepSize() + tierN(3000, 300000)(t) },
		Floor: tierN(500, 5000),
		Run:   runC06,
		Assumptions: []string{"for congruence the library's own plain rendering (via Formattable) is the oracle; C09/C10 tie it to the model"},
	})
}

// wellFormed scans a redactable string: per line, ‹ never while open, › never while closed, line ends closed.
func wellFormed(s string) string {
	for ln, line := range strings.Split(s, "\n") {
		open := false
		for _, r := range line {
			switch r {
			case '‹':
				if open {
					return fmt.Sprintf("nested open marker on line %d: %q", ln, line)
				}
				open = true
			case '›':
				if !open {
					return fmt.Sprintf("close marker without open on line %d: %q", ln, line)
				}
				open = false
			}
		}
		if open {
			return fmt.Sprintf("marker left open at end of line %d: %q", ln, line)
		}
	}
	return ""
}

var refusalRe = regexp.MustCompile(`^‹%!([qxX])\([^‹›]*\)›$`)

func runC06(c *core.Ctx) {
	g := gen.New(c.R)
	class := strClass(c, g)
	c.Cover("string-class", class)
	var t *gen.Node
	if c.Case < 2*gen.SweepSize() {
		t = g.Sweep(c.Case / 2)
	} else {
		t = g.Tree(1 + c.R.Intn(6))
	}
	coverTree(c, t)
	if t.Depth() >= 3 || t.HasKind(gen.MultiKinds...) {
		c.Nontrivial(t.Sig() + "/" + class)
	}
	e, _, ok := safeBuild(c, t)
	if !ok {
		return
	}
	unsafe, _ := model.Taint(t)
	for _, st := range stagesOf(c, t, e, validUTF8(t)) {
		c.Cover("stage", st.name)
		outer := fmt.Sprintf("%T", st.err)
		for _, v := range []string{"%v", "%s", "%+v", "%q", "%x", "%X"} {
			var rs redact.RedactableString
			if p := core.Try(func() { rs = redact.Sprintf(v, st.err) }); p != nil {
				c.Violate("panic/redact"+v, "redactable rendering panicked", fmt.Sprintf("%s\nstage %s: %v", t, st.name, p))
				continue
			}
			c.Count("renderings", 1)
			s := string(rs)
			if strings.Contains(s, "PANIC=") {
				c.Violate("panic-in-format/"+v, "a Format method panicked during redactable rendering", fmt.Sprintf("%s\nstage %s\n%s", t, st.name, trimS(s, 800)))
			}
			if w := wellFormed(s); w != "" {
				c.Violate("wf/"+v+"/"+st.name, "redactable rendering has unbalanced or nested redaction markers", fmt.Sprintf("%s\nstage %s outer %s: %s\nfull: %q", t, st.name, outer, w, trimS(s, 1500)))
			}
			switch v {
			case "%q", "%x", "%X":
				if !refusalRe.MatchString(s) {
					c.Violate("refusal-form/"+v, "unsupported verb not refused with the ‹%!verb(type)› notation", fmt.Sprintf("%s\nstage %s: %q", t, st.name, trimS(s, 600)))
				}
				red := string(rs.Redact())
				for _, tk := range unsafe {
					if strings.Contains(red, tk.Token) {
						c.Violate("refusal-leak/"+v, "unsupported verb rendered unsafe data", fmt.Sprintf("%s\nstage %s: %q", t, st.name, trimS(red, 600)))
						break
					}
				}
			default:
				if class == "regular" {
					var plain string
					if p := core.Try(func() { plain = fmt.Sprintf(v, errors.Formattable(st.err)) }); p != nil {
						c.Violate("panic/plain"+v, "plain rendering panicked", fmt.Sprintf("%s\nstage %s: %v", t, st.name, p))
						continue
					}
					if strings.ContainsAny(plain, "‹›") {
						// the error's own text carries marker runes at this process (an opaque
						// barrier shows its redactable wire message: recorded finding of C04);
						// the congruence clause is about marker-free inputs
						c.Count("congruence-skipped(text-has-markers)", 1)
						continue
					}
					c.Count("congruence-comparisons", 1)
					if got := rs.StripMarkers(); got != plain {
						c.Violate("congruence/"+v+"/"+st.name, "stripping the markers of the redactable rendering does not give the plain rendering",
							fmt.Sprintf("%s\nstage %s outer %s\n%s", t, st.name, outer, firstDiff(got, plain)))
					}
				}
			}
		}
	}
	c.Sample(sample(t, map[string]interface{}{"string_class": class, "redact%v": string(redact.Sprint(e))}))
}

func trimS(s string, n int) string {
	if len(s) > n {
		return s[:n] + "…"
	}
	return s
}

// firstDiff shows the neighbourhood of the first difference between two strings.
func firstDiff(a, b string) string {
	i := 0
	for i < len(a) && i < len(b) && a[i] == b[i] {
		i++
	}
	lo := i - 80
	if lo < 0 {
		lo = 0
	}
	ha, hb := i+80, i+80
	if ha > len(a) {
		ha = len(a)
	}
	if hb > len(b) {
		hb = len(b)
	}
	return fmt.Sprintf("first difference at byte %d:\n  redactable-stripped: %q\n  plain:               %q", i, a[lo:ha], b[lo:hb])
}
