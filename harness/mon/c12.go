package mon

import (
	"fmt"
	"strings"

	"verifharness/core"
	"verifharness/gen"
	"verifharness/model"
	"verifharness/obs"
)

func init() {
	core.Register(&core.Prop{
		ID: "C12", Level: "exploration",
		Technique: "conservation monitor: unique tokens on every input the library declares PII-free (+ type names, first stack frames) must all be found in the Sentry report / GetAllSafeDetails output, at the origin and after transfer",
		Rule: "per case one tree (pairwise sweep, then PRNG depth<=6) over regular strings with a unique token in every string. Stages: local, hop1, hop2, unknowing-then-knowing. " +
			"Non-trivial = tree with a declared-safe token that sits behind a barrier / in a secondary error / in a multi-cause branch, or depth>=3; distinct = kind-tree signature.",
		Cases: func(t string) int { return gen.SweepSize() + tierN(3000, 300000)(t) },
		Floor: tierN(500, 5000),
		Run:   runC12,
		Assumptions: []string{"declared-safe set of the model: constant messages and format strings, Safe() arguments, telemetry keys, domains, issue links, tag keys, type names, first stack frame of each capturing layer; the inside of a Mark reference carries no obligation (discarded by design); os/net operation names are not in the set"},
	})
}

func runC12(c *core.Ctx) {
	g := gen.New(c.R)
	t := caseTree(c, g, 6)
	if c.Case%8 == 3 {
		// a third-party leaf that declares safe strings through SafeDetails() and ALSO has a
		// pkg/errors-style StackTrace(), at the end of the main chain
		n := t
		for len(n.Kids) == 1 && !model.IsMulti(n) && len(n.Kids[0].Kids) > 0 {
			n = n.Kids[0]
		}
		if len(n.Kids) == 1 && !model.IsMulti(n) {
			n.Kids[0] = g.Make("stacksafeleaf", nil, nil)
		}
	}
	coverTree(c, t)
	e, _, ok := safeBuild(c, t)
	if !ok {
		return
	}
	_, safe := model.Taint(t)
	nontriv := t.Depth() >= 3
	for _, s := range safe {
		if s.Hidden && !s.InMark {
			nontriv = true
		}
	}
	if nontriv {
		c.Nontrivial(t.Sig())
	}
	// layers: visible and hidden (outside Mark references)
	type lay struct {
		model.Layer
		hidden bool
	}
	var layers []lay
	var rec func(n *gen.Node, hid bool)
	rec = func(n *gen.Node, hid bool) {
		for _, l := range model.OwnLayers(n) {
			layers = append(layers, lay{l, hid})
		}
		for _, k := range n.Kids {
			rec(k, hid)
		}
		for _, k := range n.Hidden {
			if n.Kind != "mark" && n.Kind != "markempty" {
				rec(k, true)
			}
		}
	}
	rec(t, false)
	for _, st := range stagesOf(c, t, e, true) {
		if st.name == "unknowing" || st.name == "partly-unknowing" || st.name == "from-old-peer" || st.name == "payloads-dropped" {
			continue // retention is claimed between processes that know the types
		}
		c.Cover("stage", st.name)
		for pass := 0; pass < 2; pass++ { // reporting must not consume what it reports: observe twice
		var all, event, extras string
		if p := core.Try(func() {
			o := obs.PIIFree(st.err)
			event, extras = o["sentry-event"], o["sentry-extras"]
			all = event + "\x01" + extras + "\x01" + o["allsafedetails"]
		}); p != nil {
			c.Violate("panic/report", "report / safe details panicked", fmt.Sprintf("%s\nstage %s: %v", t, st.name, p))
			break
		}
		for _, tk := range safe {
			if tk.InMark {
				continue
			}
			c.Count("safe-tokens-searched", 1)
			if !strings.Contains(all, tk.Token) {
				where := ""
				if tk.Hidden {
					where = "/hidden"
				}
				c.Violate(fmt.Sprintf("lost/%s.%d%s", tk.Kind, tk.Idx, where), "a string the library declares PII-free is absent from both the Sentry report and GetAllSafeDetails",
					fmt.Sprintf("%s\nstage %s: token %s (from %s arg %d)", t, st.name, tk.Token, tk.Kind, tk.Idx))
			}
		}
		for _, l := range layers {
			c.Count("layer-type-searches", 1)
			if !l.hidden {
				if !strings.Contains(extras, l.Family) {
					c.Violate("lost-type/"+famShort(l.Family), "a visible layer's type name is absent from the 'error types' extra",
						fmt.Sprintf("%s\nstage %s: %s", t, st.name, l.Family))
				}
			} else if !strings.Contains(all, strings.TrimPrefix(l.GoType, "*")) {
				c.Violate("lost-hidden-type/"+famShort(l.Family), "a hidden layer's type name is absent from report and safe details",
					fmt.Sprintf("%s\nstage %s: %s", t, st.name, l.GoType))
			}
			if l.StackFn != "" {
				c.Count("stack-frame-searches", 1)
				i := strings.LastIndex(l.StackFn, ".")
				mod, fn := l.StackFn[:i], l.StackFn[i+1:]
				if !l.hidden {
					if !strings.Contains(event, `"function":"`+fn+`"`) || !strings.Contains(event, `"module":"`+mod+`"`) {
						c.Violate("lost-frame/visible", "the first frame of a visible layer's stack is absent from the report's exceptions",
							fmt.Sprintf("%s\nstage %s: %s", t, st.name, l.StackFn))
					}
				} else if !strings.Contains(all, l.StackFn) {
					c.Violate("lost-frame/hidden", "the first frame of a hidden layer's stack is absent from report and safe details",
						fmt.Sprintf("%s\nstage %s: %s", t, st.name, l.StackFn))
				}
			}
		}
		}
	}
	c.Sample(sample(t, map[string]interface{}{"safe_tokens": len(safe), "layers": len(layers)}))
}
