package mon

import (
	"context"
	"fmt"
	"strings"

	"github.com/cockroachdb/errors"
	"github.com/cockroachdb/errors/errbase"
	"github.com/cockroachdb/errors/errorspb"
	"github.com/gogo/protobuf/proto"

	"verifharness/core"
	"verifharness/mig"
	migold "verifharness/migold"
	"verifharness/sim"
)

type migr struct {
	prev string // previous type name (reflect String())
	to   error  // new type
}

type version struct {
	name   string
	native error                  // leaf instance (nil = does not know the type)
	mkWrap func(c error) error    // native wrapper constructor
	migs   []migr                 // RegisterTypeMigration calls, in order
}

var (
	la, lb, lc, ld = mig.LA{}, mig.LB{}, mig.LC{}, mig.LD{}
	wa             = func(c error) error { return &mig.WA{C: c} }
	wb             = func(c error) error { return &mig.WB{C: c} }
	wc             = func(c error) error { return &mig.WC{C: c} }
	wd             = func(c error) error { return &mig.WD{C: c} }
)

func perms(in []migr) [][]migr {
	if len(in) <= 1 {
		return [][]migr{in}
	}
	var out [][]migr
	for i := range in {
		rest := append(append([]migr(nil), in[:i]...), in[i+1:]...)
		for _, p := range perms(rest) {
			out = append(out, append([]migr{in[i]}, p...))
		}
	}
	return out
}

// interleavings of the leaf and the wrapper migration lists (same relative order in each)
func both(l, w []migr, flip bool) []migr {
	if flip {
		return append(append([]migr(nil), w...), l...)
	}
	var out []migr
	for i := range l {
		out = append(out, l[i])
		if i < len(w) {
			out = append(out, w[i])
		}
	}
	return out
}

func versions() []version {
	vs := []version{
		{name: "v0-unknowing"},
		{name: "v1-A", native: la, mkWrap: wa},
		{name: "v2-A>B", native: lb, mkWrap: wb, migs: []migr{{"mig.LA", lb}, {"*mig.WA", &mig.WB{}}}},
		{name: "v2'-A>C", native: lc, mkWrap: wc, migs: []migr{{"mig.LA", lc}, {"*mig.WA", &mig.WC{}}}},
	}
	l3 := []migr{{"mig.LA", lb}, {"mig.LB", lc}}
	w3 := []migr{{"*mig.WA", &mig.WB{}}, {"*mig.WB", &mig.WC{}}}
	for i, p := range perms(l3) {
		wp := perms(w3)[i]
		vs = append(vs, version{name: fmt.Sprintf("v3-A>B>C/order%d", i), native: lc, mkWrap: wc, migs: both(p, wp, i%2 == 1)})
	}
	l4 := []migr{{"mig.LA", lb}, {"mig.LB", lc}, {"mig.LC", ld}}
	w4 := []migr{{"*mig.WA", &mig.WB{}}, {"*mig.WB", &mig.WC{}}, {"*mig.WC", &mig.WD{}}}
	for i, p := range perms(l4) {
		wp := perms(w4)[(i*5+1)%6]
		vs = append(vs, version{name: fmt.Sprintf("v4-A>B>C>D/order%d", i), native: ld, mkWrap: wd, migs: both(p, wp, i%2 == 0)})
	}
	return vs
}

// install makes the process behave like the given code version; the
// returned function undoes it. Only the public API is used:
// TestingWithEmptyMigrationRegistry, RegisterTypeMigration and
// Register*Decoder(key, nil).
func (v version) install() (uninstall func(), problem interface{}) {
	restore := errbase.TestingWithEmptyMigrationRegistry()
	var lk, wk []errors.TypeKey
	problem = core.Try(func() {
		for i, m := range v.migs {
			errors.RegisterTypeMigration(mig.Pkg, m.prev, m.to)
			// ... and, as init() code does, use the key of every type registered so
			// far right away (e.g. to register its decoder) BEFORE the next migration
			for _, u := range v.migs[:i+1] {
				_ = errors.GetTypeKey(u.to)
			}
		}
		if v.native != nil {
			// registered in the documented order: after the migrations, under GetTypeKey(new type).
			// The leaf type has a custom encoder whose wire message differs from Error() and whose
			// payload the decoder insists on.
			k := errors.GetTypeKey(v.native)
			nat := v.native
			errors.RegisterLeafEncoder(k, func(context.Context, error) (string, []string, proto.Message) {
				return "wire-msg", []string{"safe-detail"}, &errorspb.StringPayload{Msg: "payload"}
			})
			errors.RegisterLeafDecoder(k, func(_ context.Context, _ string, _ []string, p proto.Message) error {
				if sp, ok := p.(*errorspb.StringPayload); !ok || sp.Msg != "payload" {
					return nil
				}
				return nat
			})
			lk = append(lk, k)
		}
		if v.mkWrap != nil {
			k := errors.GetTypeKey(v.mkWrap(nil))
			mk := v.mkWrap
			errors.RegisterWrapperDecoder(k, func(_ context.Context, c error, _ string, _ []string, _ proto.Message) error { return mk(c) })
			wk = append(wk, k)
		}
	})
	return func() {
		for _, k := range lk {
			errors.RegisterLeafDecoder(k, nil)
			errors.RegisterLeafEncoder(k, nil)
		}
		for _, k := range wk {
			errors.RegisterWrapperDecoder(k, nil)
		}
		restore()
	}, problem
}

const origLeafKey = mig.Pkg + "/mig.LA"
const origWrapKey = mig.Pkg + "/*mig.WA"

func init() {
	nv := len(versions())
	core.Register(&core.Prop{
		ID: "C17", Level: "exploration", Exhaustive: true,
		Technique: "configuration enumeration with runtime monitors: code versions (never knew / original / renamed / other rename / chained renames in every registration order) installed through the public registration API around every encode and decode step; monitors on wire family names, decoded Go types and Is across every (sender, intermediary, receiver) triple",
		Rule: fmt.Sprintf("enumerated completely: %d versions (v0, v1, A>B, A>C, A>B>C in 2 orders, A>B>C>D in 6 orders; leaf value type and wrapper pointer type) x every (sender, intermediary-or-none, receiver) triple, plus scenario 5 (two errors from different versions compared at a process that never knew the type), registration-order independence of GetTypeKey and rejection of a second registration. "+
			"Non-trivial = every triple; distinct = the triple.", nv),
		Cases: func(string) int { return (nv-1)*(nv+1) + 1 },
		Floor: func(string) int { return 500 },
		Run:   runC17,
		Assumptions: []string{"a code version is simulated in-process: empty migration registry + that version's RegisterTypeMigration calls in order + its decoders, installed and removed around each step"},
	})
}

func wireFamilies(enc *errorspb.EncodedError) []string {
	var out []string
	for {
		if w := enc.GetWrapper(); w != nil {
			out = append(out, w.Details.ErrorTypeMark.FamilyName)
			enc = &w.Cause
			continue
		}
		if l := enc.GetLeaf(); l != nil {
			out = append(out, l.Details.ErrorTypeMark.FamilyName)
		}
		return out
	}
}

func runC17(c *core.Ctx) {
	vs := versions()
	nv := len(vs)
	if c.Case == (nv-1)*(nv+1) {
		c17Global(c, vs)
		return
	}
	s := vs[1+c.Case/(nv+1)] // senders know the type
	imIdx := c.Case%(nv+1) - 1 // -1 = none
	imName := "-"
	// sender encodes a wrapped leaf
	un, prob := s.install()
	if prob != nil {
		un()
		c.Violate("install/"+vname(s.name), "installing a version's migrations panicked", fmt.Sprintf("%s: %v", s.name, prob))
		return
	}
	var enc errorspb.EncodedError
	p := core.Try(func() {
		b := sim.EncBytes(s.mkWrap(s.native))
		enc, _ = sim.Unmarshal(b)
	})
	un()
	if p != nil {
		c.Violate("panic/encode", "encoding panicked", fmt.Sprintf("sender %s: %v", s.name, p))
		return
	}
	fam := wireFamilies(&enc)
	if len(fam) != 2 || fam[0] != origWrapKey || fam[1] != origLeafKey {
		c.Violate("wire-family/"+vname(s.name), "a sender that knows the rename does not encode under the original name",
			fmt.Sprintf("sender %s (migrations %s): wire families %v, want [%s %s]", s.name, migNames(s), fam, origWrapKey, origLeafKey))
	}
	cur := sim.Marshal(enc)
	if imIdx >= 0 {
		im := vs[imIdx]
		imName = im.name
		un, prob := im.install()
		if prob == nil {
			p = core.Try(func() { cur = sim.EncBytes(sim.DecBytes(cur)) })
		}
		un()
		if prob != nil || p != nil {
			c.Violate("panic/intermediary", "intermediary panicked", fmt.Sprintf("%s -> %s: %v %v", s.name, im.name, prob, p))
			return
		}
		e2, _ := sim.Unmarshal(cur)
		if f2 := wireFamilies(&e2); strings.Join(f2, ",") != strings.Join(fam, ",") && len(fam) == 2 && fam[0] == origWrapKey {
			c.Violate("wire-family-after-intermediary/"+vname(im.name), "an intermediary changes the wire family names", fmt.Sprintf("%s -> %s: %v became %v", s.name, im.name, fam, f2))
		}
	}
	for _, r := range vs {
		tuple := fmt.Sprintf("%s -> %s -> %s", s.name, imName, r.name)
		c.Nontrivial(tuple)
		c.Cover("receiver", vname(r.name))
		un, prob := r.install()
		var d error
		var isNative, isWrapped bool
		p := core.Try(func() {
			if prob != nil {
				panic(prob)
			}
			d = sim.DecBytes(cur)
			if r.native != nil {
				isNative = errors.Is(d, r.native)
				isWrapped = errors.Is(d, r.mkWrap(r.native))
			}
		})
		un()
		if p != nil || d == nil {
			c.Violate("panic/receive", "receiver panicked", fmt.Sprintf("%s: %v", tuple, p))
			continue
		}
		c.Count("triples", 1)
		if r.native == nil {
			continue
		}
		leaf := errors.UnwrapAll(d)
		if got, want := fmt.Sprintf("%T", leaf), fmt.Sprintf("%T", r.native); got != want {
			c.Violate("decoded-leaf-type/"+vname(r.name), "a receiver that knows the rename does not decode the leaf to its native type",
				fmt.Sprintf("%s (receiver migrations %s): leaf is %s, want %s", tuple, migNames(r), got, want))
		}
		if got, want := fmt.Sprintf("%T", d), fmt.Sprintf("%T", r.mkWrap(nil)); got != want {
			c.Violate("decoded-wrapper-type/"+vname(r.name), "a receiver that knows the rename does not decode the wrapper to its native type",
				fmt.Sprintf("%s (receiver migrations %s): wrapper is %s, want %s", tuple, migNames(r), got, want))
		}
		if !isNative {
			c.Violate("is-native/"+vname(r.name), "Is(received, native instance) is false at a knowing receiver", tuple)
		}
		if !isWrapped {
			c.Violate("is-native-wrapped/"+vname(r.name), "Is(received, native wrapped instance) is false at a knowing receiver", tuple)
		}
	}
	if c.Case%11 == 0 {
		c.Sample(map[string]interface{}{"sender": s.name, "sender_migrations": migNames(s), "intermediary": imName, "wire_families": fam, "receivers": nv})
	}
}

func vname(n string) string {
	if i := strings.Index(n, "/"); i > 0 {
		return n[:i]
	}
	return n
}

func migNames(v version) string {
	var s []string
	for _, m := range v.migs {
		s = append(s, fmt.Sprintf("%s->%T", m.prev, m.to))
	}
	return strings.Join(s, ", ")
}

func c17Global(c *core.Ctx, vs []version) {
	c.Nontrivial("global")
	// registration-order independence of the newest type's key
	keys := map[string]map[string]bool{}
	for _, v := range vs {
		if v.native == nil {
			continue
		}
		un, prob := v.install()
		var lk, wk string
		core.Try(func() { lk = string(errors.GetTypeKey(v.native)); wk = string(errors.GetTypeKey(v.mkWrap(nil))) })
		un()
		if prob != nil {
			continue
		}
		n := vname(v.name)
		if keys[n] == nil {
			keys[n] = map[string]bool{}
		}
		keys[n][lk+" "+wk] = true
		c.Nontrivial("key/" + v.name)
		if lk != origLeafKey || wk != origWrapKey {
			c.Violate("type-key/"+n, "GetTypeKey of a renamed type is not the original key", fmt.Sprintf("%s (%s): %s %s", v.name, migNames(v), lk, wk))
		}
	}
	for n, m := range keys {
		if len(m) > 1 {
			c.Violate("order-dependence/"+n, "GetTypeKey of the newest type depends on the registration order", fmt.Sprint(m))
		}
	}
	// a second registration for the same target is rejected
	restore := errbase.TestingWithEmptyMigrationRegistry()
	errors.RegisterTypeMigration(mig.Pkg, "mig.LA", lb)
	if p := core.Try(func() { errors.RegisterTypeMigration(mig.Pkg, "mig.LX", lb) }); p == nil {
		c.Violate("double-registration", "registering the same target type twice is not rejected", "")
	}
	if p := core.Try(func() { errors.RegisterTypeMigration(mig.Pkg, "mig.LA", lb) }); p == nil {
		c.Violate("double-registration/identical", "registering the same target type twice (with the identical previous name) is not rejected", "")
	}
	restore()
	c.Nontrivial("double-registration")
	// a move that changes ONLY the import path (package name and type name stay): old code has
	// migold.LP (verifharness/migold), new code mig.LP (verifharness/mig) declared as renamed from it
	if p := core.Try(func() {
		const oldKey = "verifharness/migold/mig.LP"
		restore := errbase.TestingWithEmptyMigrationRegistry()
		defer restore()
		fromOld := sim.EncBytes(migold.LP{}) // what the old code sends
		errors.RegisterTypeMigration("verifharness/migold", "mig.LP", mig.LP{})
		k := errors.GetTypeKey(mig.LP{})
		if string(k) != oldKey {
			c.Violate("pkg-move/type-key", "GetTypeKey of a type whose package path changed is not the original key", string(k))
		}
		errors.RegisterLeafDecoder(k, func(context.Context, string, []string, proto.Message) error { return mig.LP{} })
		defer errors.RegisterLeafDecoder(k, nil)
		enc := errors.EncodeError(sim.Ctx, mig.LP{})
		if fam := enc.GetLeaf().Details.ErrorTypeMark.FamilyName; fam != oldKey {
			c.Violate("pkg-move/encoded-name", "a type whose package path changed is not encoded under its original name", fam)
		}
		d := sim.DecBytes(fromOld)
		if _, ok := d.(mig.LP); !ok {
			c.Violate("pkg-move/decoded-type", "an error arriving under the original name is not decoded to the moved type", fmt.Sprintf("%T", d))
		}
		if !errors.Is(d, mig.LP{}) || !errors.Is(mig.LP{}, d) || !errors.Is(sim.DecBytes(sim.Marshal(enc)), d) {
			c.Violate("pkg-move/is", "Is does not recognize the moved type across old and new code", "")
		}
		if p := core.Try(func() { errors.RegisterTypeMigration("verifharness/elsewhere", "mig.LP", mig.LP{}) }); p == nil {
			c.Violate("pkg-move/double-registration", "registering the same target type twice is not rejected", "")
		}
		c.Nontrivial("pkg-move")
	}); p != nil {
		c.Violate("pkg-move/panic", "the package-move scenario panicked", fmt.Sprint(p))
	}
	// scenario 5: errors from different versions compared at a process that never knew the type
	type sent struct {
		name string
		b    []byte
	}
	var all []sent
	for _, v := range vs {
		if v.native == nil {
			continue
		}
		un, prob := v.install()
		var b []byte
		p := core.Try(func() { b = sim.EncBytes(v.mkWrap(v.native)) })
		un()
		if prob == nil && p == nil {
			all = append(all, sent{v.name, b})
		}
	}
	un, _ := vs[0].install()
	for i := range all {
		for j := range all {
			c.Nontrivial(fmt.Sprintf("scenario5/%s/%s", all[i].name, all[j].name))
			var ok bool
			p := core.Try(func() { ok = errors.Is(sim.DecBytes(all[i].b), sim.DecBytes(all[j].b)) })
			c.Count("scenario5-pairs", 1)
			if p != nil || !ok {
				c.Violate("scenario5/"+vname(all[i].name)+"/"+vname(all[j].name), "two equivalent errors from different code versions are not Is-equal at a process that never knew the type",
					fmt.Sprintf("%s vs %s (%v)", all[i].name, all[j].name, p))
			}
		}
	}
	un()
}
