package mon

import (
	goErr "errors"
	"fmt"

	"github.com/cockroachdb/errors"

	"verifharness/core"
	"verifharness/gen"
	"verifharness/model"
)

func init() {
	core.Register(&core.Prop{
		ID: "C08", Level: "exploration",
		Technique: "reference-model monitor: errors.Is/IsAny on generated pairs vs an independent implementation of the documented equivalence over model marks; algebraic monitors (reflexive, monotone, IsAny=disjunction, nil)",
		Rule: "per case one tree e (pairwise sweep, then PRNG depth<=5) and a reference pool: all visible+hidden layers of e, sentinels, errnos, an independent tree, and systematic perturbations of e " +
			"(one message / type / domain changed, one layer added / removed, equal copy, leaf-or-wrapper type with the same text, strict prefix / extension chains, Mark with references of other chain lengths). " +
			"Every (e, r) pair is evaluated. Non-trivial = case with at least one positive and one negative pair; distinct = kind-tree signature.",
		Cases: func(t string) int { return gen.SweepSize() + tierN(1500, 120000)(t) },
		Floor: tierN(500, 5000),
		Run:   runC08,
		Assumptions: []string{"marks come from the hard-coded family-name table of the model, not from the library", "a foreign type's own Is method is called on the live object"},
	})
}

func runC08(c *core.Ctx) {
	g := gen.New(c.R)
	w := newIsWorld(c, g, 5, true)
	if w == nil {
		return
	}
	t, e := w.T, w.E
	checkModelShape(c, t, e, "model", true)
	// a hostile pair: an error whose Error() method panics, on either side
	if c.Case%4 == 0 {
		hostile := &gen.PanicLeaf{}
		if p := core.Try(func() {
			c.Count("is-with-panicking-Error()", 4)
			if errors.Is(e, hostile) || errors.IsAny(e, hostile, hostile) {
				c.Violate("hostile/positive", "an error matches an unrelated reference whose Error() panics", t.String())
			}
			_ = errors.Is(hostile, e)
			// ... as the error under examination, bare and below library wrappers (the search then
			// walks over the layer whose Error() panics), with references that do not match
			for _, h := range []error{hostile, errors.WithStack(hostile), errors.WithHint(errors.WithDomain(hostile, "d"), "h")} {
				c.Count("is-with-panicking-Error()", 3)
				if a, b := errors.Is(h, e), errors.IsAny(h, e, goErr.New("other")); a != b {
					c.Violate("hostile/isany-disjunction", "IsAny(h, e, other) differs from Is(h, e) for an error h with a layer whose Error() panics", t.String())
				}
				if !errors.IsAny(h, e, h) {
					c.Violate("hostile/reflexive", "IsAny(h, e, h) is false for an error whose Error() panics", t.String())
				}
			}
			if !errors.Is(hostile, hostile) {
				c.Violate("hostile/reflexive", "Is(x, x) is false for an error whose Error() panics", t.String())
			}
		}); p != nil {
			c.Violate("hostile/panic", "Is / IsAny panicked for a pair in which one error's Error() method panics", fmt.Sprintf("%s\n%v", t, p))
		}
	}
	pos, neg := 0, 0
	type cand struct {
		name string
		err  error
		vis  []Live
	}
	cands := []cand{{"e", e, w.Vis}}
	// Mark(e, r) with a reference of arbitrary chain length
	if len(w.Refs) > 0 {
		r := w.Refs[c.R.Intn(len(w.Refs))]
		// half of the time: a reference that e ALREADY matches (Mark must still add the mark)
		if c.R.Intn(2) == 0 {
			var posRefs []Ref
			for _, x := range w.Refs {
				if ok, p := safeIs(e, x.Err); p == nil && ok && x.Origin != "self" {
					posRefs = append(posRefs, x)
				}
			}
			if len(posRefs) > 0 {
				r = posRefs[c.R.Intn(len(posRefs))]
				c.Count("mark-with-already-matching-reference", 1)
			}
		}
		var me error
		if p := core.Try(func() { me = errors.Mark(e, r.Err) }); p != nil {
			c.Violate("mark-panic", "Mark panicked", fmt.Sprintf("%s\nref %T: %v", t, r.Err, p))
		} else {
			vis := append([]Live{{Err: me, Mark: r.Mark, Fam: "markers/*markers.withMark"}}, w.Vis...)
			cands = append(cands, cand{"Mark(e," + r.Origin + ")", me, vis})
		}
	}
	// e under a leaf-or-wrapper type
	{
		lw := &gen.LOW{Msg: "lw", C: e}
		lm := model.MarkT{Msg: "lw: " + model.Text(t), Types: append([]model.TM{{Family: "verifharness/gen/*gen.LOW"}}, model.Mark(t).Types...)}
		if model.OwnLayers(t)[0].Mark {
			// chain of a wrapper above a withMark uses the withMark's own type
			lm.Types = append([]model.TM{{Family: "verifharness/gen/*gen.LOW"}}, chainTypes(t)...)
		}
		cands = append(cands, cand{"LOW(e)", lw, append([]Live{{Err: lw, Mark: lm}}, w.Vis...)})
	}
	for _, cd := range cands {
		anyTrue := false
		var refs []error
		for _, r := range w.Refs {
			refs = append(refs, r.Err)
			c.Count("pairs", 1)
			c.Cover("ref-origin", r.Origin)
			got, p := safeIs(cd.err, r.Err)
			rel := chainRelation(cd.vis, r.Mark)
			if p != nil {
				c.Violate("is-panic/"+rel, "Is panicked", fmt.Sprintf("e=%s: %s\nref (%s, layer %d of %s) %T %q\npanic: %v", cd.name, t, r.Origin, r.Li, r.Tree, r.Err, r.Err, p))
				continue
			}
			want := refIs(cd.vis, r.Err, r.Mark, true)
			if got != want {
				c.Violate(fmt.Sprintf("is-mismatch/%s/got=%v", rel, got), "Is disagrees with the reference implementation of the documented equivalence",
					fmt.Sprintf("e=%s: %s\nref (%s, layer %d of %s) %T %q\ngot %v want %v", cd.name, t, r.Origin, r.Li, r.Tree, r.Err, r.Err, got, want))
			}
			if got {
				pos++
				anyTrue = true
				c.Count("positive-pairs", 1)
				// monotone under wrapping
				if c.R.Intn(4) == 0 {
					for wn, wf := range wrappersFor(cd.err) {
						var r2 bool
						if p := core.Try(func() { r2 = errors.Is(wf, r.Err) }); p != nil || !r2 {
							c.Violate("monotone/"+wn, "Is(e,r) holds but Is(w(e),r) does not", fmt.Sprintf("e=%s: %s\nref %T %q (panic %v)", cd.name, t, r.Err, r.Err, p))
						}
					}
				}
			} else {
				neg++
			}
		}
		// IsAny = disjunction, on the whole pool and on random sub-pools
		checkAny := func(sub []error, want bool, what string) {
			var got bool
			if p := core.Try(func() { got = errors.IsAny(cd.err, sub...) }); p != nil {
				c.Violate("isany-panic", "IsAny panicked", fmt.Sprintf("e=%s: %s\n%v", cd.name, t, p))
			} else if got != want {
				c.Violate("isany-disjunction/"+what, "IsAny differs from the disjunction of Is", fmt.Sprintf("e=%s: %s\ngot %v want %v over %d refs", cd.name, t, got, want, len(sub)))
			}
			c.Count("isany-calls", 1)
		}
		checkAny(refs, anyTrue, "all")
		for k := 0; k < 4; k++ {
			var sub []error
			want := false
			for _, r := range w.Refs {
				if c.R.Intn(6) == 0 {
					sub = append(sub, r.Err)
					if got, p := safeIs(cd.err, r.Err); p == nil && got {
						want = true
					}
				}
			}
			hasNil := false
			if c.R.Intn(2) == 0 {
				// a nil reference somewhere in the middle of the caller's slice
				i := c.R.Intn(len(sub) + 1)
				sub = append(sub, nil)
				copy(sub[i+1:], sub[i:])
				sub[i] = nil
				hasNil = true
			}
			before := append([]error(nil), sub...)
			checkAny(sub, want, "subset")
			// the caller owns the slice it spreads into IsAny: it must come back untouched
			for i := range sub {
				if (sub[i] == nil) != (before[i] == nil) || sub[i] != nil && comparable(sub[i]) && comparable(before[i]) && sub[i] != before[i] {
					c.Violate("isany-modifies-references", "IsAny modified the caller's slice of references", fmt.Sprintf("e=%s: %s\nelement %d of %d", cd.name, t, i, len(sub)))
					break
				}
			}
			checkAny(sub, want, "subset-again")
			var nilAny bool
			if p := core.Try(func() { nilAny = errors.IsAny(nil, sub...) }); p != nil || nilAny != hasNil {
				c.Violate("isany-nil", "IsAny(nil, refs...) is not 'some reference is nil'", fmt.Sprintf("e=%s: %s\ngot %v want %v (%v)", cd.name, t, nilAny, hasNil, p))
			}
		}
		// reflexive
		if got, p := safeIs(cd.err, cd.err); p != nil || !got {
			c.Violate("reflexive", "Is(e,e) is false or panics", fmt.Sprintf("e=%s: %s (%v)", cd.name, t, p))
		}
	}
	// reflexivity of every layer object, nil handling
	for _, r := range w.Refs {
		if got, p := safeIs(r.Err, r.Err); p != nil || !got {
			c.Violate("reflexive-layer/"+famShort(r.Fam), "Is(x,x) is false or panics", fmt.Sprintf("%s layer %d %T (%v)", r.Tree, r.Li, r.Err, p))
		}
	}
	if got, p := safeIs(nil, e); p != nil || got {
		c.Violate("nil/Is(nil,r)", "Is(nil, r) != (r == nil)", t.String())
	}
	if got, p := safeIs(e, nil); p != nil || got {
		c.Violate("nil/Is(e,nil)", "Is(e, nil) is true", t.String())
	}
	if got, p := safeIs(nil, nil); p != nil || !got {
		c.Violate("nil/Is(nil,nil)", "Is(nil, nil) is false", "")
	}
	var anyNil bool
	if p := core.Try(func() { anyNil = errors.IsAny(nil, e, nil) }); p != nil || !anyNil {
		c.Violate("nil/IsAny(nil,..nil)", "IsAny(nil, e, nil) is false", "")
	}
	if pos > 0 && neg > 0 {
		c.Nontrivial(t.Sig())
	}
	c.Sample(sample(t, map[string]interface{}{"refs": len(w.Refs), "positive_pairs": pos, "negative_pairs": neg}))
}

func chainTypes(t *gen.Node) []model.TM {
	var out []model.TM
	for _, l := range model.Chain(t) {
		out = append(out, model.TM{Family: l.Family, Ext: l.Ext})
	}
	return out
}

func wrappersFor(e error) map[string]error {
	return map[string]error{
		"WithStack": errors.WithStack(e), "Wrap": errors.Wrap(e, "p"), "WithHint": errors.WithHint(e, "h"),
		"fmt.Errorf%w": fmt.Errorf("x: %w", e), "Join(a,e)": errors.Join(goErr.New("a"), e), "goJoin(e,a)": goErr.Join(e, goErr.New("a")),
		"WithDomain": errors.WithDomain(e, "d"), "Mark(e,other)": errors.Mark(e, goErr.New("other")),
		"WithSecondaryError": errors.WithSecondaryError(e, goErr.New("s")), "NoFmtWrap": &gen.NoFmtWrap{C: e, Msg: "w"}, "CauseWrap": &gen.CauseWrap{C: e, Msg: "w"},
	}
}
