package mon

import (
	"bytes"
	"fmt"
	"github.com/cockroachdb/errors/errorspb"
	"strings"

	"github.com/cockroachdb/errors"
	"github.com/cockroachdb/redact"

	"verifharness/core"
	"verifharness/gen"
	"verifharness/obs"
	"verifharness/sim"
)

func init() {
	core.Register(&core.Prop{
		ID: "C04", Level: "exploration",
		Technique: "differential monitor over recorded histories with unknowing intermediaries (registry-forgetting hook, cross-checked by hook-free wire renaming): text/type names/safe details at the unknowing process, byte-exact re-encoding, full observation record at the final knowing receiver vs a direct hop",
		Rule: "per case one tree (pairwise sweep, then PRNG depth<=6, regular strings); for a tree with n distinct wire type keys every subset of unknown keys is enumerated when n<=6 (else sampled: quick 8, thorough 32), " +
			"plus one two-intermediary history U(K1).U(K2).K. Non-trivial = (tree, non-empty subset) pair; distinct = kind-tree signature x subset size.",
		Cases: func(t string) int { return gen.SweepSize() + tierN(500, 60000)(t) },
		Floor: tierN(500, 5000),
		Run:   runC04,
		Assumptions: []string{"an unknowing process = the same binary with the decoders for the chosen type keys removed during decode (hook VerifForgetTypes); the wire-renaming simulation is a soundness cross-check of the harness only",
			"the direct single-hop result at a knowing process is the oracle for the final receiver (tied to the origin by C01/C02/C11)"},
	})
}

func subsetsOf(c *core.Ctx, keys []string) [][]string {
	n := len(keys)
	var out [][]string
	if n <= 6 {
		for mask := 1; mask < 1<<uint(n); mask++ {
			var s []string
			for i := 0; i < n; i++ {
				if mask&(1<<uint(i)) != 0 {
					s = append(s, keys[i])
				}
			}
			out = append(out, s)
		}
		return out
	}
	k := 8
	if c.Tier == "thorough" {
		k = 32
	}
	out = append(out, keys) // all unknown
	for i := 0; i < n && len(out) < k/2; i++ {
		out = append(out, []string{keys[c.R.Intn(n)]}) // singletons
	}
	for len(out) < k {
		out = append(out, subset(c.R, keys))
	}
	return out
}

func isAnswers(e error, refs []error) string {
	b := make([]byte, len(refs))
	for i, r := range refs {
		b[i] = '0'
		if ok, p := safeIs(e, r); p != nil {
			b[i] = 'P'
		} else if ok {
			b[i] = '1'
		}
	}
	return string(b)
}

func runC04(c *core.Ctx) {
	g := gen.New(c.R)
	if c.Case%8 == 7 {
		g.Str = gen.RegularBin // messages with a byte sequence that is not valid UTF-8
	}
	t := caseTree(c, g, 6)
	// A wrapper that overrides its cause's message may override it with the
	// EMPTY string (user wrapper whose Error() returns "", fmt.Errorf("%.0w")).
	// An error whose text is empty is outside the domain of regular (non-empty)
	// messages, and every wrapper above it would get an irregular text too
	// (dangling ": ", trailing or doubled newlines in joins), so such a node is
	// only ever placed at the ROOT of the tree, in one case in twelve.
	if c.R.Intn(12) == 0 {
		t = &gen.Node{Kind: "elidewrap", S: []string{""}, Kids: []*gen.Node{t}}
		c.Count("root-overrides-with-empty-message", 1)
	}
	coverTree(c, t)
	e, m, ok := safeBuild(c, t)
	if !ok {
		return
	}
	var enc0 []byte
	var keys []string
	var direct error
	var dobs obs.Rec
	var s0 obs.Shape
	var refs []error
	for _, s := range gen.Sentinels {
		refs = append(refs, s)
	}
	gen.Walk(t, func(n *gen.Node, _ bool) { refs = append(refs, m[n]) })
	var dIs string
	var origNodes []error
	if p := core.Try(func() {
		enc0 = sim.EncBytes(e)
		keys = sim.KeysOf(e)
		direct = sim.DecBytes(enc0)
		dobs = obs.Full(direct)
		dIs = isAnswers(direct, refs)
		s0 = obs.ShapeOf(e)
		origNodes = obs.Nodes(e)
	}); p != nil {
		c.Violate("panic/origin", "encoding / direct decode / observation panicked", fmt.Sprintf("%s\n%v", t, p))
		return
	}
	hiding := hasHiding(t)
	subs := subsetsOf(c, keys)
	c.Cover("distinct-type-keys", fmt.Sprint(len(keys)))
	for si, sub := range subs {
		c.Nontrivial(fmt.Sprintf("%s/%d", t.Sig(), len(sub)))
		c.Count("tree-subset-pairs", 1)
		c.Cover("subset-size", fmt.Sprint(len(sub)))
		for _, k := range sub {
			c.Cover("forgotten-family", famShort(k))
		}
		// every second subset: the process does not link the payload message types of the forgotten types either
		// every third subset: the process has leaf decoders for those types, which decline
		p := sim.Proc{Forget: sub, NoProto: si%2 == 1, Declining: si%3 == 2}
		c.Cover("forgotten-types-have-a-declining-leaf-decoder", fmt.Sprint(p.Declining))
		c.Cover("payload-message-types-linked", fmt.Sprint(!p.NoProto))
		var out, out2 []byte
		var su obs.Shape
		var typeProblem string
		if pn := core.Try(func() {
			out = p.Receive(enc0, func(d error) {
				su = obs.ShapeOf(d)
				// the origin's type names and safe details are kept
				dn := obs.Nodes(d)
				if len(dn) == len(origNodes) {
					for i := range dn {
						a, b := errors.GetSafeDetails(origNodes[i]), errors.GetSafeDetails(dn[i])
						if a.OriginalTypeName != b.OriginalTypeName || a.ErrorTypeMark != b.ErrorTypeMark {
							typeProblem = fmt.Sprintf("node %d: type %s|%v became %s|%v", i, a.OriginalTypeName, a.ErrorTypeMark, b.OriginalTypeName, b.ErrorTypeMark)
						} else if !obs.IsHidingFamily(a.ErrorTypeMark.FamilyName) && !containsAll(b.SafeDetails, a.SafeDetails) {
							typeProblem = fmt.Sprintf("node %d (%s): safe details %q became %q", i, a.OriginalTypeName, a.SafeDetails, b.SafeDetails)
						}
					}
				}
			})
			out2 = p.Receive(out, nil)
		}); pn != nil {
			c.Violate("panic/unknowing", "decode / observe / re-encode at an unknowing process panicked", fmt.Sprintf("%s\nforgot %v\n%v", t, sub, pn))
			continue
		}
		// (a) text at the unknowing process
		textOK := true
		if d, owner, want, got := obs.Diff4(s0, su); d != "" {
			textOK = false
			c.Violate("text@unknowing/"+famShort(owner)+"/"+textFault(want, got), "a process that does not know some types shows another Error() text (or tree shape) than the origin",
				fmt.Sprintf("%s\nforgot %v\n%s", t, sub, d))
		}
		if typeProblem != "" {
			c.Violate("details@unknowing", "origin's type names or safe details not kept at the unknowing process", fmt.Sprintf("%s\nforgot %v\n%s", t, sub, typeProblem))
		}
		// (b) byte-exact re-encoding
		// (only where (a) held: a type known here whose encoder derives its wire
		// message from its causes' texts re-derives it from the changed text --
		// that is the same root cause as the (a) violation, already reported)
		if !textOK {
			c.Count("reencode-check-skipped(text-already-differs)", 1)
		} else if !bytes.Equal(out2, out) {
			e1, _ := sim.Unmarshal(out)
			e2, _ := sim.Unmarshal(out2)
			c.Violate("reencode-drift/"+driftOwner(&e1, &e2), "an unknowing process does not re-emit the message it received (second pass)", fmt.Sprintf("%s\nforgot %v", t, sub))
		}
		if textOK && !bytes.Equal(out, enc0) {
			if !hiding || len(sub) == len(keys) {
				e1, _ := sim.Unmarshal(enc0)
				e2, _ := sim.Unmarshal(out)
				c.Violate("reencode/"+driftOwner(&e1, &e2), "an unknowing process does not re-emit the message it received",
					fmt.Sprintf("%s\nforgot %v\nreceived:  %s\nforwarded: %s", t, sub, e1.String(), e2.String()))
			} else {
				c.Count("first-pass-differs-with-hidden-rendering(exempt)", 1)
			}
		}
		// (c) the final knowing receiver
		checkFinal := func(b []byte, hist string) {
			var fin error
			var fobs obs.Rec
			var fIs string
			if pn := core.Try(func() { fin = sim.DecBytes(b); fobs = obs.Full(fin); fIs = isAnswers(fin, refs) }); pn != nil || fin == nil {
				c.Violate("panic/final", "final knowing receiver panicked", fmt.Sprintf("%s\n%s forgot %v: %v", t, hist, sub, pn))
				return
			}
			if diff := obs.DiffRec(dobs, fobs, nil); len(diff) > 0 {
				k := diff[0]
				c.Violate("final/"+recKeyClass(k), "a knowing receiver behind an unknowing intermediary reconstructs a different error than by direct transfer",
					fmt.Sprintf("%s\n%s forgot %v\nfield %s:\n direct: %q\n via-U:  %q", t, hist, sub, k, dobs[k], fobs[k]))
			}
			if fIs != dIs {
				c.Violate("final/is", "identity (Is) at the final receiver differs from direct transfer", fmt.Sprintf("%s\n%s forgot %v\n direct %s\n via-U  %s", t, hist, sub, dIs, fIs))
			}
		}
		checkFinal(out, "U.K")
		// two unknowing intermediaries
		if si == 0 || c.R.Intn(4) == 0 {
			sub2 := subset(c.R, keys)
			var o2 []byte
			if pn := core.Try(func() { o2 = sim.Proc{Forget: sub2, NoProto: si%2 == 0}.Receive(out, nil) }); pn != nil {
				c.Violate("panic/unknowing2", "second unknowing process panicked", fmt.Sprintf("%s\nforgot %v then %v\n%v", t, sub, sub2, pn))
			} else {
				c.Count("two-intermediary-histories", 1)
				checkFinal(o2, fmt.Sprintf("U.U(%v).K", sub2))
			}
		}
		// a message from a NEWER sender: wrappers of the forgotten types carry a message-type value this
		// version does not define; the unknowing process must hand it on as received
		// (checked where the process knows NONE of the types: a known container re-derives its own wire
		// message and safe details from what it decoded, see the exemption above)
		if len(sub) == len(keys) {
			if p := core.Try(func() {
				enc, _ := sim.Unmarshal(enc0)
				forget := map[string]bool{}
				for _, k := range sub {
					forget[k] = true
				}
				n := 0
				var rec func(e *errorspb.EncodedError)
				rec = func(e *errorspb.EncodedError) {
					if w := e.GetWrapper(); w != nil {
						if forget[w.Details.ErrorTypeMark.FamilyName] {
							w.MessageType = errorspb.MessageType([]int32{2, 7, -1}[(si+n)%3])
							n++
						}
						rec(&w.Cause)
					} else if l := e.GetLeaf(); l != nil {
						for _, k := range l.MultierrorCauses {
							rec(k)
						}
					}
				}
				rec(&enc)
				if n == 0 {
					return
				}
				in := sim.Marshal(enc)
				c.Count("future-message-type-relays", 1)
				if fwd := (sim.Proc{Forget: sub}).Receive(in, nil); !bytes.Equal(fwd, in) {
					e1, _ := sim.Unmarshal(in)
					e2, _ := sim.Unmarshal(fwd)
					c.Violate("reencode-future-message-type/"+driftOwner(&e1, &e2), "an unknowing process does not re-emit a message whose wrappers carry a message-type value it does not define",
						fmt.Sprintf("%s\nforgot %v", t, sub))
				}
			}); p != nil {
				c.Violate("panic/future-message-type", "an unknowing process panicked on an undefined message-type value", fmt.Sprintf("%s\nforgot %v\n%v", t, sub, p))
			}
		}
		// cross-check of the harness: hook-free renaming simulation
		if si%3 == 0 {
			crossCheckRename(c, t, enc0, sub, su, out)
		}
	}
	c.Sample(sample(t, map[string]interface{}{"type_keys": keys, "subsets": len(subs)}))
}

// recKeyClass maps an observation key to a class for signatures.
func recKeyClass(k string) string {
	if len(k) > 4 && k[:4] == "node" {
		if i := indexByte(k, '.'); i > 0 {
			return "node" + k[i:]
		}
	}
	return k
}

func indexByte(s string, b byte) int {
	for i := 0; i < len(s); i++ {
		if s[i] == b {
			return i
		}
	}
	return -1
}

func crossCheckRename(c *core.Ctx, t *gen.Node, enc0 []byte, sub []string, hookShape obs.Shape, hookOut []byte) {
	forget := map[string]bool{}
	for _, k := range sub {
		forget[k] = true
	}
	core.Try(func() {
		enc1, _ := sim.Unmarshal(enc0)
		sim.RenameForget(&enc1, forget)
		er := errors.DecodeError(sim.Ctx, enc1)
		rs := obs.ShapeOf(er)
		encR, _ := sim.Unmarshal(sim.EncBytes(er))
		sim.RenameRestore(&encR)
		br := sim.Marshal(encR)
		c.Count("sim-crosschecks", 1)
		c.Count("sim_disagreements", 0)
		if d, _ := obs.Diff(hookShape, rs); d != "" || !bytes.Equal(br, hookOut) {
			c.Count("sim_disagreements", 1)
			if c.Verbose {
				fmt.Printf("  (harness warning) the two unknowing-process simulations disagree on %s forgot %v: %s\n", t, sub, d)
			}
		}
	})
}

// containsAll: every string of want occurs in have.
func containsAll(have, want []string) bool {
	set := map[string]bool{}
	for _, h := range have {
		set[h] = true
	}
	for _, w := range want {
		if !set[w] {
			return false
		}
	}
	return true
}

// textFault classifies how an observed text differs from the expected one.
func textFault(want, got string) string {
	switch {
	case got == want:
		return "shape" // same text, different number of causes
	case string(redact.RedactableString(got).StripMarkers()) == want:
		return "redaction-markers-shown"
	case strings.HasPrefix(want, "rpc error: code = ") && strings.HasSuffix(want, " desc = "+got):
		return "grpc-description-only"
	case got == "":
		return "empty"
	case strings.HasSuffix(got, ": "+want) || strings.HasPrefix(got, want+": "):
		return "duplicated-part"
	}
	return "other"
}
