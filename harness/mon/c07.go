package mon

import (
	"fmt"
	"reflect"
	"strings"

	"github.com/cockroachdb/errors"

	"verifharness/core"
	"verifharness/gen"
	"verifharness/model"
	"verifharness/obs"
	"verifharness/sim"
)

func init() {
	core.Register(&core.Prop{
		ID: "C07", Level: "exploration",
		Technique: "reference-model + invariant monitors on trees with forced hidden sub-trees: hidden objects unreachable through Unwrap/Cause/UnwrapAll/UnwrapMulti; Is/IsAny/As/HasType/HasInterface/If and every Has*/Get* accessor equal to a model over visible layers only; positive half: barrier text, hidden error's tokens and type names in %+v, hidden chain's safe details in the hiding layer's safe details",
		Rule: "per case a tree that contains >=1 barrier / secondary / error-argument / Mark node whose hidden sub-tree is a generated tree wrapped in annotation layers (hints, details, domains, assertion flags, HTTP/gRPC codes, telemetry keys, issue links, sentinels, As-target types); placed under 0-3 wrappers or in a multi-cause node. Cases 0..SweepSize-1 are the pairwise sweep (includes every hiding kind as outer and inner). " +
			"Stages: local, after 1 and 2 knowing hops. Non-trivial = hidden sub-tree with >=1 annotation layer or As-target type; distinct = kind-tree signature.",
		Cases: func(t string) int { return gen.SweepSize() + tierN(2500, 250000)(t) },
		Floor: tierN(500, 5000),
		Run:   runC07,
		Assumptions: []string{"visible-layer model of harness/model; marks from the model's family table", "%+v visibility is token- and type-name based (the embedded rendering is re-indented)"},
	})
}

// asProbe is an As / HasType target.
type asProbe struct {
	goType string
	as     func(e error) (bool, error)
	ref    error
}

var asProbes = []asProbe{
	{"*gen.NoFmtLeaf", func(e error) (bool, error) { var x *gen.NoFmtLeaf; ok := errors.As(e, &x); return ok, errOrNil(ok, x) }, (*gen.NoFmtLeaf)(nil)},
	{"*gen.FmtLeaf", func(e error) (bool, error) { var x *gen.FmtLeaf; ok := errors.As(e, &x); return ok, errOrNil(ok, x) }, (*gen.FmtLeaf)(nil)},
	{"*gen.SafeFmtLeaf", func(e error) (bool, error) { var x *gen.SafeFmtLeaf; ok := errors.As(e, &x); return ok, errOrNil(ok, x) }, (*gen.SafeFmtLeaf)(nil)},
	{"*gen.OldFmtLeaf", func(e error) (bool, error) { var x *gen.OldFmtLeaf; ok := errors.As(e, &x); return ok, errOrNil(ok, x) }, (*gen.OldFmtLeaf)(nil)},
	{"*gen.FmtrLeaf", func(e error) (bool, error) { var x *gen.FmtrLeaf; ok := errors.As(e, &x); return ok, errOrNil(ok, x) }, (*gen.FmtrLeaf)(nil)},
	{"*gen.IsLeaf", func(e error) (bool, error) { var x *gen.IsLeaf; ok := errors.As(e, &x); return ok, errOrNil(ok, x) }, (*gen.IsLeaf)(nil)},
	{"*gen.LOW", func(e error) (bool, error) { var x *gen.LOW; ok := errors.As(e, &x); return ok, errOrNil(ok, x) }, (*gen.LOW)(nil)},
	{"*gen.NoFmtWrap", func(e error) (bool, error) { var x *gen.NoFmtWrap; ok := errors.As(e, &x); return ok, errOrNil(ok, x) }, (*gen.NoFmtWrap)(nil)},
	{"*gen.CauseWrap", func(e error) (bool, error) { var x *gen.CauseWrap; ok := errors.As(e, &x); return ok, errOrNil(ok, x) }, (*gen.CauseWrap)(nil)},
	{"*gen.FmtWrap", func(e error) (bool, error) { var x *gen.FmtWrap; ok := errors.As(e, &x); return ok, errOrNil(ok, x) }, (*gen.FmtWrap)(nil)},
	{"*gen.SafeFmtWrap", func(e error) (bool, error) { var x *gen.SafeFmtWrap; ok := errors.As(e, &x); return ok, errOrNil(ok, x) }, (*gen.SafeFmtWrap)(nil)},
	{"*gen.EmptyWrap", func(e error) (bool, error) { var x *gen.EmptyWrap; ok := errors.As(e, &x); return ok, errOrNil(ok, x) }, (*gen.EmptyWrap)(nil)},
	{"*gen.OldFmtWrap", func(e error) (bool, error) { var x *gen.OldFmtWrap; ok := errors.As(e, &x); return ok, errOrNil(ok, x) }, (*gen.OldFmtWrap)(nil)},
	{"*gen.FmtrWrap", func(e error) (bool, error) { var x *gen.FmtrWrap; ok := errors.As(e, &x); return ok, errOrNil(ok, x) }, (*gen.FmtrWrap)(nil)},
	{"*gen.ElideWrap", func(e error) (bool, error) { var x *gen.ElideWrap; ok := errors.As(e, &x); return ok, errOrNil(ok, x) }, (*gen.ElideWrap)(nil)},
	{"*gen.MultiNoFmt", func(e error) (bool, error) { var x *gen.MultiNoFmt; ok := errors.As(e, &x); return ok, errOrNil(ok, x) }, (*gen.MultiNoFmt)(nil)},
	{"*gen.MultiReg", func(e error) (bool, error) { var x *gen.MultiReg; ok := errors.As(e, &x); return ok, errOrNil(ok, x) }, (*gen.MultiReg)(nil)},
	{"gen.NCLeaf", func(e error) (bool, error) { var x gen.NCLeaf; ok := errors.As(e, &x); return ok, nil }, gen.NCLeaf{}},
	{"syscall.Errno", func(e error) (bool, error) { var x errnoT; ok := errors.As(e, &x); return ok, errOrNil(ok, x) }, errnoT(0)},
}

func errOrNil(ok bool, e error) error {
	if !ok {
		return nil
	}
	return e
}

// hiddenProfile generates a tree with a forced hidden sub-tree that has something to bleed.
func hiddenProfile(c *core.Ctx, g *gen.Gen) *gen.Node {
	r := c.R
	hs := g.Tree(1 + r.Intn(4))
	for i, d := 0, 1+r.Intn(3); i < d; i++ {
		k := annotKinds[r.Intn(len(annotKinds)-1)] // without the barrier entry
		hs = g.Around(k, hs)
	}
	var hk []string
	for _, k := range append(append([]string(nil), gen.BarrierKinds...), gen.WrapHiddenKinds...) {
		if gen.Specs[k].W > 0 { // weight 0: only ever placed explicitly
			hk = append(hk, k)
		}
	}
	k := hk[r.Intn(len(hk))]
	var n *gen.Node
	if gen.Specs[k].Class == gen.Barrier {
		n = g.Make(k, nil, []*gen.Node{hs})
	} else {
		n = g.Make(k, []*gen.Node{g.Tree(1 + r.Intn(3))}, []*gen.Node{hs})
	}
	for i, d := 0, r.Intn(4); i < d; i++ {
		ok := gen.OuterKinds()
		n = g.Around(ok[r.Intn(len(ok))], n)
	}
	return n
}

func runC07(c *core.Ctx) {
	g := gen.New(c.R)
	var t *gen.Node
	if c.Case < gen.SweepSize() {
		t = g.Sweep(c.Case)
	} else {
		t = hiddenProfile(c, g)
	}
	if c.Case%12 == 5 {
		// an override with the EMPTY message (only ever at the root: texts above an empty text are irregular)
		t = &gen.Node{Kind: "handledmsgempty", Hidden: []*gen.Node{t}}
	}
	coverTree(c, t)
	e, m, ok := safeBuild(c, t)
	if !ok {
		return
	}
	ix, prob := index(t, m)
	if prob != "" {
		c.Violate("model/chain", "live chain shorter than the model's layer list", fmt.Sprintf("%s\n%s", t, prob))
		return
	}
	vis := visibleLive(ix)
	// a hidden layer whose object is also a visible object (a shared
	// sentinel, an equal errno value) is not hidden
	shared := func(h error) bool {
		for _, v := range vis {
			if comparable(h) && comparable(v.Err) && v.Err == h {
				return true
			}
		}
		return false
	}
	var hidden []Live
	for _, l := range ix {
		if l.Hidden && !shared(l.Err) {
			hidden = append(hidden, l)
		}
	}
	if len(hidden) == 0 {
		return
	}
	nontriv := false
	for _, l := range hidden {
		ml := model.OwnLayers(l.Node)[l.Li]
		if ml.HasHint || ml.HasDetail || ml.HasDomain || ml.Assert || ml.HasHTTP || ml.HasGRPC || ml.Keys != nil || ml.Link != nil || ml.Tags != nil || strings.Contains(ml.GoType, "gen.") {
			nontriv = true
		}
		c.Cover("hidden-layer-type", famShort(l.Fam))
	}
	if nontriv {
		c.Nontrivial(t.Sig())
	}
	visTypes := map[string]bool{}
	for _, l := range model.Visible(t) {
		visTypes[l.GoType] = true
	}
	chainTypesSet := map[string]bool{}
	for _, l := range model.Chain(t) {
		chainTypesSet[l.GoType] = true
	}
	want := modelAnn(t)
	wantText := model.Text(t)

	stages := []stage{{"local", e}}
	if p := core.Try(func() {
		h1, _ := sim.Hop(e)
		h2, _ := sim.Hop(h1)
		stages = append(stages, stage{"hop1", h1}, stage{"hop2", h2})
	}); p != nil {
		c.Violate("panic/hop", "hop panicked", fmt.Sprintf("%s\n%v", t, p))
	}
	for _, st := range stages {
		ee := st.err
		c.Cover("stage", st.name)
		if p := core.Try(func() {
			// 1. reachability (object identity is meaningful locally only)
			if st.name == "local" {
				reach := obs.Nodes(ee)
				reach = append(reach, errors.UnwrapAll(ee), errors.Cause(ee))
				// ... and through each layer's own Unwrap() / Cause() methods and the
				// standard library's walk (errors.Unwrap / Is / As follow Unwrap()).
				reach = append(reach, stdWalk(ee)...)
				for _, x := range obs.Nodes(ee) {
					var u, cz error
					hasU, hasC := false, false
					if w, ok := x.(interface{ Unwrap() error }); ok {
						u, hasU = w.Unwrap(), true
						reach = append(reach, u)
					}
					if w, ok := x.(interface{ Cause() error }); ok {
						cz, hasC = w.Cause(), true
						reach = append(reach, cz)
					}
					if w, ok := x.(interface{ Unwrap() []error }); ok {
						reach = append(reach, w.Unwrap()...)
					}
					if hasU && hasC && !sameErr(u, cz) {
						c.Violate("unwrap-vs-cause/"+famShort(string(errors.GetTypeKey(x))), "a layer's Unwrap() and Cause() methods return different errors", fmt.Sprintf("%s\n%T", t, x))
					}
					if hasU && !sameErr(u, errors.UnwrapOnce(x)) {
						c.Violate("unwrap-method/"+famShort(string(errors.GetTypeKey(x))), "a layer's Unwrap() method does not return its visible cause", fmt.Sprintf("%s\n%T", t, x))
					}
				}
				for _, h := range hidden {
					for _, x := range reach {
						if comparable(h.Err) && comparable(x) && x == h.Err {
							c.Violate("reachable/"+famShort(h.Fam), "a hidden error object is reachable through Unwrap/Cause/UnwrapAll/UnwrapMulti", fmt.Sprintf("%s\nhidden layer %d of %s", t, h.Li, h.Node))
						}
					}
					c.Count("reachability-checks", 1)
				}
				// 2. Is / IsAny against hidden layers
				var refs []error
				anyWant := false
				for _, h := range hidden {
					wantIs := refIs(vis, h.Err, h.Mark, true)
					got, p := safeIs(ee, h.Err)
					c.Count("is-vs-hidden", 1)
					if p != nil || got != wantIs {
						c.Violate(fmt.Sprintf("is-hidden/got=%v/%s", got, famShort(h.Fam)), "Is(e, hidden) differs from the reference over visible layers only",
							fmt.Sprintf("%s\nhidden layer %d of %s: %T %q (panic %v)", t, h.Li, h.Node, h.Err, h.Err, p))
					}
					refs = append(refs, h.Err)
					anyWant = anyWant || wantIs
				}
				if got := errors.IsAny(ee, refs...); got != anyWant {
					c.Violate("isany-hidden", "IsAny(e, hidden...) differs from the reference over visible layers only", t.String())
				}
			}
			// shape: number of visible layers unchanged (a hidden error attached as cause would add layers)
			if n, w := len(obs.Nodes(ee)), len(model.Visible(t)); n != w {
				c.Violate("visible-layer-count/"+st.name, "number of reachable layers differs from the visible-layer model", fmt.Sprintf("%s\n%d vs %d", t, n, w))
			}
			// 3. As / HasType / HasInterface / If
			for _, pr := range asProbes {
				got, val := pr.as(ee)
				c.Count("as-probes", 1)
				wantAs := visTypes[pr.goType]
				if st.name != "local" && strings.Contains(pr.goType, "gen.") && pr.goType != "*gen.ElideWrap" && pr.goType != "*gen.MultiReg" {
					wantAs = false // unregistered harness types arrive as opaque values
				}
				if got != wantAs {
					c.Violate(fmt.Sprintf("as-hidden/%s/got=%v", pr.goType, got), "As differs from the model over visible layers only", fmt.Sprintf("%s\nstage %s target %s", t, st.name, pr.goType))
				}
				if st.name == "local" && got && val != nil {
					for _, h := range hidden {
						if comparable(h.Err) && comparable(val) && h.Err == val {
							c.Violate("as-assigns-hidden/"+pr.goType, "As assigned a hidden error object", t.String())
						}
					}
				}
				wantHas := chainTypesSet[pr.goType]
				if st.name != "local" && strings.Contains(pr.goType, "gen.") && pr.goType != "*gen.ElideWrap" && pr.goType != "*gen.MultiReg" {
					wantHas = false
				}
				if got := errors.HasType(ee, pr.ref); got != wantHas {
					c.Violate(fmt.Sprintf("hastype-hidden/%s/got=%v", pr.goType, got), "HasType differs from the model over the visible chain", fmt.Sprintf("%s\nstage %s target %s", t, st.name, pr.goType))
				}
			}
			type timeouter interface{ Timeout() bool }
			wantIface := false
			for _, n := range chainNodes(ee) {
				if _, ok := n.(timeouter); ok {
					wantIface = true
				}
			}
			if got := errors.HasInterface(ee, (*timeouter)(nil)); got != wantIface {
				c.Violate("hasinterface", "HasInterface disagrees with a walk of the visible chain", t.String())
			}
			cnt := 0
			errors.If(ee, func(err error) (interface{}, bool) { cnt++; return nil, false })
			if w := len(chainNodes(ee)); cnt != w {
				c.Violate("if-visits", "If visits something else than the visible chain", fmt.Sprintf("%s\n%d vs %d", t, cnt, w))
			}
			// 4. accessors
			got := observeAnn(ee)
			c.Count("accessor-records-compared", 1)
			compareAnn(got, want, func(field, gs, ws string) {
				c.Violate("accessor-bleed/"+field, "an accessor differs from the model over visible layers only (hidden error contributes?)",
					fmt.Sprintf("%s\nstage %s %s: got %s\n   want %s", t, st.name, field, gs, ws))
			})
			// 5. text
			if ee.Error() != wantText {
				c.Violate("text/"+st.name, "Error() differs from the model (barrier keeps / replaces the hidden text)", fmt.Sprintf("%s\n%q vs %q", t, ee.Error(), wantText))
			}
		}); p != nil {
			c.Violate("panic/"+st.name, "an operation panicked", fmt.Sprintf("%s\n%v", t, p))
			continue
		}
		// 6 + 7: positive half, per hiding layer
		positiveHalf(c, t, m, st)
	}
	c.Sample(sample(t, map[string]interface{}{"hidden_layers": len(hidden), "visible_layers": len(vis)}))
}

type errnoT = syscallErrno

func chainNodes(e error) []error {
	var out []error
	for c := e; c != nil; c = errors.UnwrapOnce(c) {
		out = append(out, c)
	}
	return out
}

// positiveHalf: the hidden error stays visible in %+v and contributes its safe details.
func positiveHalf(c *core.Ctx, t *gen.Node, m gen.Built, st stage) {
	nodes := obs.Nodes(st.err)
	vl := model.Visible(t)
	if len(nodes) != len(vl) {
		return
	}
	var pv string
	if p := core.Try(func() { pv = fmt.Sprintf("%+v", errors.Formattable(st.err)) }); p != nil {
		c.Violate("panic/%+v", "%+v panicked", fmt.Sprintf("%s\n%v", t, p))
		return
	}
	for i, l := range vl {
		if !l.Barrier && !l.Secondary {
			continue
		}
		hnode := l.Hides
		if hnode == nil {
			continue
		}
		hobj := m[hnode]
		if st.name != "local" {
			k := 1
			if st.name == "hop2" {
				k = 2
			}
			if p := core.Try(func() { hobj = sim.HopN(hobj, k) }); p != nil {
				continue
			}
		}
		c.Count("hiding-layers-checked", 1)
		var hv string
		core.Try(func() { hv = fmt.Sprintf("%+v", errors.Formattable(hobj)) })
		// every token of the hidden sub-tree that its own %+v shows must be in e's %+v
		gen.Walk(hnode, func(n *gen.Node, _ bool) {
			for _, s := range n.S {
				if tk := gen.TokenOf(s); tk != "" && strings.Contains(hv, tk) && !strings.Contains(pv, tk) {
					c.Violate("plusv-missing-token/"+famShort(l.Family), "a string visible in the hidden error's own %+v is missing from the %+v of the error that hides it",
						fmt.Sprintf("%s\nstage %s: token %s of %s", t, st.name, tk, n.Kind))
				}
			}
		})
		for _, hl := range model.Visible(hnode) {
			if !strings.Contains(pv, hl.GoType) {
				c.Violate("plusv-missing-type/"+famShort(l.Family), "a hidden layer's type is missing from %+v", fmt.Sprintf("%s\nstage %s: %s", t, st.name, hl.GoType))
			}
		}
		// safe details of the hiding layer contain the Fill'ed safe details of the hidden chain
		sd := strings.Join(errors.GetSafeDetails(nodes[i]).SafeDetails, "\n")
		for x := hobj; x != nil; x = errors.UnwrapOnce(x) {
			p := errors.GetSafeDetails(x)
			for _, line := range p.Fill(nil) {
				if obs.IsHidingFamily(p.ErrorTypeMark.FamilyName) {
					continue // nested hiding layers re-render
				}
				if !strings.Contains(sd, line) {
					c.Violate("safedetails-missing/"+famShort(l.Family), "safe details of a hidden layer are missing from the hiding layer's safe details",
						fmt.Sprintf("%s\nstage %s: hidden layer %s\nmissing line %q", t, st.name, p.OriginalTypeName, trimS(line, 300)))
					break
				}
			}
		}
	}
	_ = reflect.TypeOf
}
