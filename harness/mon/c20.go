package mon

import (
	"strings"
	"context"
	"fmt"
	"net"
	"strconv"
	"sync"
	"time"

	"github.com/cockroachdb/errors"
	egrpc "github.com/cockroachdb/errors/grpc"
	"github.com/cockroachdb/errors/grpc/middleware"
	"github.com/hydrogen18/memlistener"
	"google.golang.org/grpc"
	"google.golang.org/grpc/codes"
	"google.golang.org/grpc/credentials/insecure"
	lstatus "github.com/cockroachdb/errors/grpc/status"
	grpcstatus "google.golang.org/grpc/status"
	"google.golang.org/grpc/health/grpc_health_v1"
	proto "github.com/golang/protobuf/proto"
	"google.golang.org/protobuf/types/known/durationpb"
	"reflect"

	"verifharness/core"
	"verifharness/gen"
	"verifharness/model"
	"verifharness/obs"
	"verifharness/sim"
)

func init() {
	core.Register(&core.Prop{
		ID: "C20", Level: "exploration",
		Technique: "differential monitor at the client boundary of a real in-memory gRPC server with the repository's interceptors: error received through UnaryClientInterceptor vs the same error transferred directly with EncodeError/DecodeError; status code and message seen by a raw client; pass-through of status errors and nil",
		Rule: "per case one tree (pairwise sweep, then PRNG depth<=7 incl. deep trees with many stacks, nested payload errors, multi-cause), regular strings, returned by the Echoer handler behind UnaryServerInterceptor; two RPCs per case (intercepting client, raw client). " +
			"Non-trivial = depth>=3 or multi-cause or carrying a gRPC code; distinct = kind-tree signature.",
		Cases: func(t string) int { return gen.SweepSize() + tierN(800, 60000)(t) },
		Floor: tierN(500, 5000),
		Run:   runC20,
		Assumptions: []string{"the direct single-hop result is the oracle (tied to the origin by C01/C02/C11)", "server and clients run in the same process over hydrogen18/memlistener; a per-RPC deadline hit is inconclusive, never a violation"},
	})
}

type echoSrv struct {
	mu   sync.Mutex
	errs map[string]error
}

func (s *echoSrv) Echo(ctx context.Context, req *egrpc.EchoRequest) (*egrpc.EchoReply, error) {
	s.mu.Lock()
	e, ok := s.errs[req.Text]
	s.mu.Unlock()
	if ok {
		return nil, e
	}
	return &egrpc.EchoReply{Reply: "ok " + req.Text}, nil
}

// fwdSrv is a forwarding service: it calls the Echoer behind it with a PLAIN gRPC client and
// returns whatever error it gets, verbatim (a status error that carries the origin's details).
type fwdSrv struct{}

func (fwdSrv) Echo(ctx context.Context, req *egrpc.EchoRequest) (*egrpc.EchoReply, error) {
	return c20raw.Echo(ctx, req)
}

var c20fwd egrpc.EchoerClient // intercepting client of the forwarding service

var (
	c20once   sync.Once
	c20srv    *echoSrv
	c20client egrpc.EchoerClient
	c20raw    egrpc.EchoerClient
	c20err    error
)

func c20setup() {
	c20srv = &echoSrv{errs: map[string]error{}}
	lis := memlistener.NewMemoryListener()
	gs := grpc.NewServer(grpc.UnaryInterceptor(middleware.UnaryServerInterceptor), grpc.MaxHeaderListSize(64<<20))
	egrpc.RegisterEchoerServer(gs, c20srv)
	go gs.Serve(lis)
	dial := func(opts ...grpc.DialOption) (egrpc.EchoerClient, error) {
		opts = append(opts, grpc.WithContextDialer(func(context.Context, string) (net.Conn, error) { return lis.Dial("", "") }),
			grpc.WithTransportCredentials(insecure.NewCredentials()), grpc.WithMaxHeaderListSize(64<<20))
		cc, err := grpc.Dial("passthrough:///mem", opts...)
		if err != nil {
			return nil, err
		}
		return egrpc.NewEchoerClient(cc), nil
	}
	c20client, c20err = dial(grpc.WithUnaryInterceptor(middleware.UnaryClientInterceptor))
	if c20err == nil {
		c20raw, c20err = dial()
	}
	if c20err == nil {
		lis2 := memlistener.NewMemoryListener()
		gs2 := grpc.NewServer(grpc.UnaryInterceptor(middleware.UnaryServerInterceptor), grpc.MaxHeaderListSize(64<<20))
		egrpc.RegisterEchoerServer(gs2, fwdSrv{})
		go gs2.Serve(lis2)
		var cc *grpc.ClientConn
		cc, c20err = grpc.Dial("passthrough:///mem2", grpc.WithContextDialer(func(context.Context, string) (net.Conn, error) { return lis2.Dial("", "") }),
			grpc.WithTransportCredentials(insecure.NewCredentials()), grpc.WithMaxHeaderListSize(64<<20), grpc.WithUnaryInterceptor(middleware.UnaryClientInterceptor))
		if c20err == nil {
			c20fwd = egrpc.NewEchoerClient(cc)
		}
	}
}

func runC20(c *core.Ctx) {
	c20once.Do(c20setup)
	if c20err != nil {
		c.Inconclusive("cannot set up the in-memory gRPC server: " + c20err.Error())
		return
	}
	if c.Case == 0 {
		c20passthrough(c)
	}
	if c.Case%64 == 1 {
		c20statusWithDetails(c)
	}
	g := gen.New(c.R)
	t := caseTree(c, g, 7)
	if c.Case%10 == 4 {
		// two code layers: the outer one wins, also when it is Unknown (the "no code" default)
		inner := &gen.Node{Kind: "grpc", N: []int{[]int{1, 3, 5, 9, 14, 16}[c.R.Intn(6)]}, Kids: []*gen.Node{t}}
		if c.R.Intn(2) == 0 {
			inner = g.Around("wrap", inner)
		}
		t = &gen.Node{Kind: "grpc", N: []int{[]int{2, 2, 7, 1}[c.R.Intn(4)]}, Kids: []*gen.Node{inner}}
	}
	if c.Case%10 == 6 {
		// a long text (several hundred bytes, multi-byte runes throughout): statuses travel in headers
		gen.Walk(t, func(n *gen.Node, _ bool) {
			for i := range n.S {
				if c.R.Intn(3) == 0 {
					n.S[i] += strings.Repeat(" 日本é", 20+c.R.Intn(40))
				}
			}
		})
	}
	gen.Walk(t, func(n *gen.Node, _ bool) {
		if n.Kind == "grpc" && n.N[0] == 0 {
			n.N[0] = 1 + c.R.Intn(16) // a status with codes.OK is a success on the wire: not an error delivery
		}
	})
	coverTree(c, t)
	e, m, ok := safeBuild(c, t)
	if !ok {
		return
	}
	ann := model.Annotations(t)
	if t.Depth() >= 3 || t.HasKind(gen.MultiKinds...) || ann.GRPC != 2 {
		c.Nontrivial(t.Sig())
	}
	key := strconv.Itoa(c.Case)
	c20srv.mu.Lock()
	c20srv.errs[key] = e
	c20srv.mu.Unlock()
	defer func() { c20srv.mu.Lock(); delete(c20srv.errs, key); c20srv.mu.Unlock() }()
	ctx, cancel := context.WithTimeout(context.Background(), 60*time.Second)
	defer cancel()
	_, got := c20client.Echo(ctx, &egrpc.EchoRequest{Text: key})
	_, rawErr := c20raw.Echo(ctx, &egrpc.EchoRequest{Text: key})
	if ctx.Err() != nil {
		c.Inconclusive("RPC deadline hit: " + ctx.Err().Error())
		return
	}
	c.Count("rpcs", 2)
	if got == nil || rawErr == nil {
		c.Violate("nil-at-client", "the handler returned an error but the client received nil", t.String())
		return
	}
	isStatus := t.Kind == "grpcerr" || t.Kind == "gogoerr"
	st, _ := grpcstatus.FromError(rawErr)
	if isStatus {
		c.Count("status-error-passthrough", 1)
		if st.Code() != codes.Code(t.N[0]) || st.Message() != t.S[0] {
			c.Violate("status-passthrough", "a handler error that already is a gRPC status error does not pass through unchanged", fmt.Sprintf("%s\ncode %v message %q", t, st.Code(), st.Message()))
		}
		gs, _ := grpcstatus.FromError(got)
		if gs == nil || gs.Code() != codes.Code(t.N[0]) || gs.Message() != t.S[0] {
			c.Violate("status-passthrough-client", "a gRPC status error does not reach the intercepting client unchanged", fmt.Sprintf("%s\n%v", t, got))
		}
		return
	}
	// status code and message visible to a raw client
	if want := codes.Code(ann.GRPC); st.Code() != want {
		c.Violate("raw-code", "the gRPC status code visible to callers is not the code attached with WrapWithGrpcCode (Unknown otherwise)", fmt.Sprintf("%s\n%v want %v", t, st.Code(), want))
	}
	// ... and what the library's own status helper reports for the error the intercepting client received
	if want, gotc := codes.Code(ann.GRPC), lstatus.Code(got); gotc != want {
		c.Violate("client-code", "grpc/status.Code of the received error is not the code attached with WrapWithGrpcCode (Unknown otherwise)", fmt.Sprintf("%s\n%v want %v", t, gotc, want))
	}
	if st.Message() != e.Error() {
		c.Violate("raw-message", "the gRPC status message is not the error's text", fmt.Sprintf("%s\n%q want %q", t, st.Message(), e.Error()))
	}
	// equality with the direct transfer
	var direct error
	var dobs, gobs obs.Rec
	var refs []error
	for _, s := range gen.Sentinels {
		refs = append(refs, s)
	}
	gen.Walk(t, func(n *gen.Node, _ bool) { refs = append(refs, m[n]) })
	if p := core.Try(func() {
		direct, _ = sim.Hop(e)
		dobs, gobs = obs.Full(direct), obs.Full(got)
	}); p != nil {
		c.Violate("panic/observe", "observation panicked", fmt.Sprintf("%s\n%v", t, p))
		return
	}
	if diff := obs.DiffRec(dobs, gobs, nil); len(diff) > 0 {
		k := diff[0]
		c.Violate("differs/"+recKeyClass(k), "the error received through the interceptors differs from the same error transferred directly",
			fmt.Sprintf("%s\nfield %s:\n direct: %s\n via gRPC: %s", t, k, trimS(dobs[k], 1200), trimS(gobs[k], 1200)))
	}
	if a, b := isAnswers(direct, refs), isAnswers(got, refs); a != b {
		c.Violate("differs/is", "identity (Is) of the error received through the interceptors differs from direct transfer", fmt.Sprintf("%s\n%s\n%s", t, a, b))
	}
	if !errors.Is(got, e) {
		c.Violate("is-origin", "the received error is not recognized as the handler's error", t.String())
	}
	// the two interceptors composed as plain functions, with the request context in three states when
	// the handler returns: live, cancelled, past its deadline. What the handler returned is what the
	// server interceptor must put on the wire, whatever has become of the context.
	if c.Case%4 == 2 {
		mk := []func() (context.Context, context.CancelFunc){
			func() (context.Context, context.CancelFunc) { return context.WithCancel(context.Background()) },
			func() (context.Context, context.CancelFunc) {
				x, cancel := context.WithCancel(context.Background())
				cancel()
				return x, cancel
			},
			func() (context.Context, context.CancelFunc) { return context.WithDeadline(context.Background(), time.Unix(1, 0)) },
		}
		names := []string{"live", "cancelled", "deadline-exceeded"}
		k := (c.Case / 4) % 3
		sctx, scancel := mk[k]()
		var fn error
		if p := core.Try(func() {
			_, serr := middleware.UnaryServerInterceptor(sctx, &egrpc.EchoRequest{Text: key}, &grpc.UnaryServerInfo{FullMethod: "/Echoer/Echo"},
				func(context.Context, interface{}) (interface{}, error) { return nil, e })
			fn = middleware.UnaryClientInterceptor(context.Background(), "/Echoer/Echo", nil, nil, nil,
				func(context.Context, string, interface{}, interface{}, *grpc.ClientConn, ...grpc.CallOption) error { return serr })
		}); p != nil {
			c.Violate("function-level/panic", "the interceptors panicked when composed as functions", fmt.Sprintf("%s\ncontext %s: %v", t, names[k], p))
		} else if fn == nil {
			c.Violate("function-level/nil", "the handler's error is lost", fmt.Sprintf("%s\ncontext %s", t, names[k]))
		} else if p := core.Try(func() {
			c.Count("function-level-compositions", 1)
			c.Cover("server-context-at-return", names[k])
			fobs := obs.Full(fn)
			if diff := obs.DiffRec(gobs, fobs, nil); len(diff) > 0 {
				kk := diff[0]
				c.Violate("function-level/"+names[k]+"/"+recKeyClass(kk), "the error delivered by the interceptors composed as functions differs from the one delivered over the wire",
					fmt.Sprintf("%s\nfield %s:\n wire: %s\n func: %s", t, kk, trimS(gobs[kk], 1200), trimS(fobs[kk], 1200)))
			}
		}); p != nil {
			c.Violate("function-level/panic", "observation panicked", fmt.Sprintf("%s\n%v", t, p))
		}
		scancel()
	}
	// the same error relayed by a forwarding service (server interceptor -> plain client -> server
	// interceptor): a status error passes through the second interceptor unchanged, so the
	// intercepting client at the far end receives what the one next to the origin receives
	if c.Case%4 == 1 {
		// (its own watchdog: the observations above may have used up the first one on a loaded machine)
		fctx, fcancel := context.WithTimeout(context.Background(), 120*time.Second)
		_, fwd := c20fwd.Echo(fctx, &egrpc.EchoRequest{Text: key})
		expired := fctx.Err() != nil
		fcancel()
		c.Count("forwarded-rpcs", 1)
		if expired {
			c.Inconclusive("forwarded RPC: watchdog deadline hit")
		} else if fwd == nil {
			c.Violate("forwarded/nil", "a forwarded error arrives as nil", t.String())
		} else if p := core.Try(func() {
			fobs := obs.Full(fwd)
			if diff := obs.DiffRec(gobs, fobs, nil); len(diff) > 0 {
				k := diff[0]
				c.Violate("forwarded/"+recKeyClass(k), "the error received through a forwarding service differs from the one received next to the origin",
					fmt.Sprintf("%s\nfield %s:\n first difference: %s\n near: %s\n far:  %s", t, k, firstDiff(gobs[k], fobs[k]), trimS(gobs[k], 1200), trimS(fobs[k], 1200)))
			}
			if a, b := isAnswers(got, refs), isAnswers(fwd, refs); a != b {
				c.Violate("forwarded/is", "identity (Is) of the forwarded error differs", fmt.Sprintf("%s\n%s\n%s", t, a, b))
			}
		}); p != nil {
			c.Violate("panic/forwarded", "observation of the forwarded error panicked", fmt.Sprintf("%s\n%v", t, p))
		}
	}
	c.Sample(sample(t, map[string]interface{}{"raw_code": st.Code().String(), "fields_compared": len(dobs)}))
}

func c20passthrough(c *core.Ctx) {
	ctx, cancel := context.WithTimeout(context.Background(), 60*time.Second)
	defer cancel()
	rep, err := c20client.Echo(ctx, &egrpc.EchoRequest{Text: "no-error"})
	if err != nil || rep == nil || rep.Reply != "ok no-error" {
		c.Violate("nil-passthrough", "a nil handler error does not pass through the interceptors", fmt.Sprint(rep, err))
	}
	c.Count("nil-passthrough", 1)
}

// c20statusWithDetails: a handler error that already is a gRPC status error and carries details of
// its own — message types the intercepting client may not be able to unmarshal (not in the gogo
// registry), and no encoded error among them — passes through the interceptors unchanged: what the
// intercepting client returns is, like what a plain client returns, a status error with the same
// code, message and details.
func c20statusWithDetails(c *core.Ctx) {
	key := "status-details-" + strconv.Itoa(c.Case)
	code := codes.Code(1 + c.R.Intn(16))
	msg := "status with details zq" + strconv.Itoa(c.Case) + "qz"
	var details []proto.Message
	switch c.R.Intn(3) {
	case 0:
		details = []proto.Message{&grpc_health_v1.HealthCheckResponse{Status: grpc_health_v1.HealthCheckResponse_NOT_SERVING}}
	case 1:
		details = []proto.Message{durationpb.New(3 * time.Second)}
	default:
		details = []proto.Message{durationpb.New(time.Minute), &grpc_health_v1.HealthCheckRequest{Service: "svc"}}
	}
	var e error
	if p := core.Try(func() {
		st := grpcstatus.New(code, msg)
		withD, err := st.WithDetails(details...)
		if err != nil {
			panic(err)
		}
		e = withD.Err()
	}); p != nil {
		c.Inconclusive(fmt.Sprintf("cannot build a status error with details: %v", p))
		return
	}
	c20srv.mu.Lock()
	c20srv.errs[key] = e
	c20srv.mu.Unlock()
	defer func() { c20srv.mu.Lock(); delete(c20srv.errs, key); c20srv.mu.Unlock() }()
	ctx, cancel := context.WithTimeout(context.Background(), 120*time.Second)
	defer cancel()
	_, got := c20client.Echo(ctx, &egrpc.EchoRequest{Text: key})
	_, raw := c20raw.Echo(ctx, &egrpc.EchoRequest{Text: key})
	if ctx.Err() != nil {
		c.Inconclusive("RPC watchdog deadline hit")
		return
	}
	c.Count("status-with-own-details-rpcs", 2)
	if got == nil || raw == nil {
		c.Violate("status-details/nil", "a status error with details arrives as nil", msg)
		return
	}
	gs, ok1 := grpcstatus.FromError(got)
	rs, ok2 := grpcstatus.FromError(raw)
	if !ok2 || rs.Code() != code || rs.Message() != msg || len(rs.Proto().GetDetails()) != len(details) {
		c.Violate("status-details/plain-client", "a status error with details does not reach a plain client unchanged", fmt.Sprintf("%v", raw))
		return
	}
	if !ok1 || reflect.TypeOf(got) != reflect.TypeOf(raw) || !proto.Equal(gs.Proto(), rs.Proto()) || got.Error() != raw.Error() {
		c.Violate("status-details/intercepting-client", "a status error with details of its own does not pass through the client interceptor unchanged",
			fmt.Sprintf("plain client: %T %v\nintercepting client: %T %v", raw, raw, got, got))
	}
}
