package mon

import (
	"strings"
	"fmt"

	"verifharness/core"
	"verifharness/gen"
	"verifharness/model"
)

// Ref is a reference error with its model mark.
type Ref struct {
	Live
	Origin string // where it came from: self, hidden, sentinel, other, perturb-*, low, ...
	Tree   *gen.Node
}

// isWorld is the population of one Is-case.
type isWorld struct {
	T    *gen.Node
	E    error
	M    gen.Built
	Vis  []Live // visible layers of E
	Refs []Ref
}

// swaps: kinds that are text-equivalent but of another type.
var kindSwaps = map[string]string{"withstack": "assertion", "assertion": "withstack", "hint": "detail", "detail": "hint",
	"goerr": "nofmtleaf", "nofmtleaf": "goerr", "fmtleaf": "oldfmtleaf", "oldfmtleaf": "fmtrleaf", "fmtrleaf": "ncleaf", "ncleaf": "lowleaf", "lowleaf": "fmtleaf",
	"pkgmsg": "nofmtwrap", "nofmtwrap": "fmtwrap", "fmtwrap": "causewrap", "causewrap": "oldfmtwrap", "oldfmtwrap": "fmtrwrap", "fmtrwrap": "lowwrap", "lowwrap": "goerrorf", "goerrorf": "pkgmsg",
	"http": "grpc", "handled": "handleassert", "opaque": "handled", "combine": "secondary", "secondary": "combine", "join": "gojoin", "gojoin": "join", "new": "goerr", "withmsg": "pkgmsg"}

// perturb returns near-equal copies of the tree, labelled.
func perturb(g *gen.Gen, t *gen.Node) (out []*gen.Node, labels []string) {
	r := g.R
	add := func(n *gen.Node, l string) { out = append(out, n); labels = append(labels, l) }
	// one message changed
	if c, all := t.Clone(); true {
		for _, i := range r.Perm(len(all)) {
			if len(all[i].S) > 0 {
				j := r.Intn(len(all[i].S))
				all[i].S[j] += "x"
				add(c, "perturb-message")
				break
			}
		}
	}
	// one kind swapped for a text-equivalent kind of another type
	if c, all := t.Clone(); true {
		for _, i := range r.Perm(len(all)) {
			if k, ok := kindSwaps[all[i].Kind]; ok {
				all[i].Kind = k
				if k == "grpc" {
					all[i].N = []int{3}
				}
				add(c, "perturb-type")
				break
			}
		}
	}
	// one domain changed
	if c, all := t.Clone(); true {
		for _, n := range all {
			if n.Kind == "domain" || n.Kind == "domainraw" || n.Kind == "handleddomain" || n.Kind == "handleddommsg" {
				n.S[0] += "x"
				add(c, "perturb-domain")
				break
			}
		}
	}
	// one type-key extension EMPTIED: a domain declared as errors.Domain(""), a key marker that is ""
	if c, all := t.Clone(); true {
		for _, n := range all {
			if n.Kind == "domain" || n.Kind == "domainraw" {
				n.Kind, n.S = "domainraw", []string{""}
				add(c, "perturb-extension-emptied")
				break
			}
			if n.Kind == "keymarkwrap" {
				n.S[1] = ""
				add(c, "perturb-extension-emptied")
				break
			}
		}
	}
	// one extra transparent layer on top / in the middle
	if c, all := t.Clone(); true {
		add(&gen.Node{Kind: "withstack", Kids: []*gen.Node{c}}, "perturb-extra-layer-top")
		c2, all2 := t.Clone()
		_ = all
		for _, i := range r.Perm(len(all2)) {
			n := all2[i]
			if len(n.Kids) >= 1 {
				j := r.Intn(len(n.Kids))
				n.Kids[j] = &gen.Node{Kind: "assertion", Kids: []*gen.Node{n.Kids[j]}}
				add(c2, "perturb-extra-layer-mid")
				break
			}
		}
	}
	// one layer removed
	if c, all := t.Clone(); true {
		if len(c.Kids) == 1 && len(c.Hidden) == 0 && gen.Specs[c.Kind].Class == gen.Wrap {
			add(c.Kids[0], "perturb-missing-layer-top")
		}
		c3, all3 := t.Clone()
		_ = all
		for _, i := range r.Perm(len(all3)) {
			n := all3[i]
			done := false
			for j, k := range n.Kids {
				if gen.Specs[k.Kind].Class == gen.Wrap && annotOnly[k.Kind] {
					n.Kids[j] = k.Kids[0]
					add(c3, "perturb-missing-layer-mid")
					done = true
					break
				}
			}
			if done {
				break
			}
		}
	}
	// exact copy (distinct objects)
	if c, _ := t.Clone(); true {
		add(c, "equal-copy")
	}
	return
}

func sentinelNode(i int) *gen.Node { return &gen.Node{Kind: "sentinel", N: []int{i}} }

// newIsWorld builds the tree of the case and its reference pool.
func newIsWorld(c *core.Ctx, g *gen.Gen, maxDepth int, withPerturb bool) *isWorld {
	t := caseTree(c, g, maxDepth)
	// one case in ten ends its main chain in the sometimes-leaf-sometimes-wrapper type with a text of the
	// form "a: b": the same text is then also the text of that type used as a WRAPPER around a leaf, a
	// reference whose type chain strictly extends the candidate's (see below)
	var lowAt *gen.Node
	if withPerturb && c.Case%10 == 9 {
		n := t
		for len(n.Kids) == 1 && !model.IsMulti(n) && len(n.Kids[0].Kids) > 0 {
			n = n.Kids[0]
		}
		if len(n.Kids) == 1 && !model.IsMulti(n) {
			lowAt = &gen.Node{Kind: "lowleaf", S: []string{g.Str(g) + ": " + g.Str(g)}}
			n.Kids[0] = lowAt
		}
	}
	coverTree(c, t)
	e, m, ok := safeBuild(c, t)
	if !ok {
		return nil
	}
	ix, prob := index(t, m)
	if prob != "" {
		c.Violate("model/chain", "live chain shorter than the model's layer list", fmt.Sprintf("%s\n%s", t, prob))
		return nil
	}
	w := &isWorld{T: t, E: e, M: m, Vis: visibleLive(ix)}
	for _, l := range ix {
		o := "self"
		if l.Hidden {
			o = "hidden"
		}
		w.Refs = append(w.Refs, Ref{Live: l, Origin: o, Tree: t})
	}
	addTree := func(n *gen.Node, origin string) {
		var e2 error
		var m2 gen.Built
		if p := core.Try(func() { e2, m2 = gen.BuildMap(n) }); p != nil || e2 == nil {
			return
		}
		ix2, prob := index(n, m2)
		if prob != "" {
			return
		}
		for _, l := range ix2 {
			w.Refs = append(w.Refs, Ref{Live: l, Origin: origin, Tree: n})
		}
	}
	for i := range gen.Sentinels {
		addTree(sentinelNode(i), "sentinel")
	}
	for i := range gen.Errnos {
		addTree(&gen.Node{Kind: "errno", N: []int{i}}, "sentinel")
	}
	// twins: fresh objects that are equivalent (same message, same type chain) to
	// a sentinel but not identical to it
	for _, i := range []int{0, 2, 3, 4, 6, 9} {
		addTree(&gen.Node{Kind: "goerr", S: []string{gen.Sentinels[i].Error()}}, "sentinel-twin")
	}
	addTree(&gen.Node{Kind: "nofmtleaf", S: []string{gen.IsSentinel.Msg}}, "sentinel-twin")
	addTree(g.Tree(1+c.R.Intn(3)), "other")
	if withPerturb {
		ps, ls := perturb(g, t)
		for i, p := range ps {
			addTree(p, ls[i])
		}
		// sometimes-leaf-sometimes-wrapper type with the same text
		txt := model.Text(t)
		addTree(&gen.Node{Kind: "lowleaf", S: []string{txt}}, "low-leaf-same-text")
		addTree(&gen.Node{Kind: "lowwrap", S: []string{"p"}, Kids: []*gen.Node{{Kind: "lowleaf", S: []string{txt}}}}, "low-wrap")
		// a reference whose chain is the candidate's chain plus/minus layers, same text
		addTree(&gen.Node{Kind: "emptywrap", Kids: []*gen.Node{{Kind: "lowleaf", S: []string{txt}}}}, "low-extended")
		if lowAt != nil {
			// the same tree with the final leaf "a: b" replaced by wrapper[a](leaf[b]): equal texts at every
			// layer, and every layer's type chain is the candidate's plus one more entry of the same type
			cl, all := t.Clone()
			for _, n := range all {
				if n.Kind == "lowleaf" && len(n.S) == 1 && n.S[0] == lowAt.S[0] {
					i := strings.Index(n.S[0], ": ")
					n.Kind, n.Kids, n.S = "lowwrap", []*gen.Node{{Kind: "lowleaf", S: []string{n.S[0][i+2:]}}}, []string{n.S[0][:i]}
					break
				}
			}
			addTree(cl, "low-chain-strictly-extended")
			c.Count("references-whose-chain-strictly-extends-the-candidate's", 1)
		}
	}
	return w
}

// chainRelation classifies a disagreement for the signature: does some
// visible layer of e have the same message as r while one type chain is a
// strict prefix of the other?
func chainRelation(vis []Live, r model.MarkT) string {
	for _, l := range vis {
		if l.Mark.Msg != r.Msg {
			continue
		}
		a, b := l.Mark.Types, r.Types
		n := len(a)
		if len(b) < n {
			n = len(b)
		}
		same := true
		for i := 0; i < n; i++ {
			if a[i] != b[i] {
				same = false
				break
			}
		}
		if same && len(a) != len(b) {
			if len(b) < len(a) {
				return "ref-chain-strict-prefix"
			}
			return "ref-chain-strict-extension"
		}
	}
	return "other"
}
