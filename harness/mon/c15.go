package mon

import (
	"fmt"
	"path/filepath"
	"reflect"
	"strings"

	"github.com/cockroachdb/errors"
	"github.com/cockroachdb/redact"

	"verifharness/core"
	"verifharness/gen"
	"verifharness/model"
	"verifharness/obs"
	"verifharness/sim"
)

func init() {
	core.Register(&core.Prop{
		ID: "C15", Level: "exploration",
		Technique: "structural trace monitor on BuildSentryReport: message = [file:line: ] redacted %+v + composition (one line per layer); one exception per stack-bearing layer in outermost-first order with that layer's frames; module = domain; 'error types' extra = one line per layer with type and mark, checked against the model's layer list",
		Rule: "per case one tree (pairwise sweep, then PRNG depth<=6, incl. multi-cause trees and trees without any stack), regular strings; stages local, decoded once, decoded twice. " +
			"Non-trivial = tree with >=2 stack-bearing layers, or a multi-cause node, or no stack at all; distinct = kind-tree signature.",
		Cases: func(t string) int { return gen.SweepSize() + tierN(2500, 250000)(t) },
		Floor: tierN(500, 5000),
		Run:   runC15,
		Assumptions: []string{"layer count, order, type names and marks come from the model; frames from the per-layer GetReportableStackTrace (tied to call sites by C16, to transfer by C11)"},
	})
}

func runC15(c *core.Ctx) {
	if c.Case == 0 {
		ev, ex := errors.BuildSentryReport(nil)
		if ev != nil || ex != nil {
			c.Violate("nil-report", "BuildSentryReport(nil) returns something", fmt.Sprint(ev, ex))
		}
	}
	g := gen.New(c.R)
	t := caseTree(c, g, 6)
	if c.R.Intn(6) == 0 {
		// a third-party style leaf with both StackTrace() and SafeDetails() at the end of the main chain
		n := t
		for len(n.Kids) == 1 && !model.IsMulti(n) && len(n.Kids[0].Kids) > 0 {
			n = n.Kids[0]
		}
		if len(n.Kids) == 1 && !model.IsMulti(n) {
			n.Kids[0] = g.Make("stacksafeleaf", nil, nil)
		}
	}
	coverTree(c, t)
	e0, _, ok := safeBuild(c, t)
	if !ok {
		return
	}
	vl := model.Visible(t)
	nStackModel := 0
	for _, l := range vl {
		if l.StackFn != "" {
			nStackModel++
		}
	}
	if nStackModel >= 2 || nStackModel == 0 || t.HasKind(gen.MultiKinds...) {
		c.Nontrivial(t.Sig())
	}
	stages := []stage{{"local", e0}}
	core.Try(func() {
		h1, _ := sim.Hop(e0)
		h2, _ := sim.Hop(h1)
		stages = append(stages, stage{"decoded", h1}, stage{"decoded-twice", h2})
	})
	for _, st := range stages {
		e := st.err
		c.Cover("stage", st.name)
		if p := core.Try(func() {
			ev, extras := errors.BuildSentryReport(e)
			if ev == nil {
				c.Violate("nil-event", "BuildSentryReport returned no event for a non-nil error", t.String())
				return
			}
			c.Count("reports", 1)
			layers := obs.Nodes(e)
			if len(layers) != len(vl) {
				c.Violate("layers/"+st.name, "number of layers differs from the model", fmt.Sprintf("%s\n%d vs %d", t, len(layers), len(vl)))
				return
			}
			// the innermost recorded source: the last layer of the single-cause
			// chain that carries a reportable stack; its innermost frame
			pfx := ""
			var inner *errors.ReportableStackTrace
			for x := e; x != nil; x = errors.UnwrapOnce(x) {
				if s := errors.GetReportableStackTrace(x); s != nil && len(s.Frames) > 0 {
					inner = s
				}
			}
			f, l, _, ok := errors.GetOneLineSource(e)
			if ok {
				pfx = fmt.Sprintf("%s:%d: ", f, l)
			}
			if (inner != nil) != ok {
				c.Violate("one-line-source/presence/"+st.name, "GetOneLineSource and the per-layer stacks disagree on whether a source location is recorded", fmt.Sprintf("%s\nGetOneLineSource ok=%v, innermost stack layer present=%v", t, ok, inner != nil))
			} else if inner != nil {
				fr := inner.Frames[len(inner.Frames)-1]
				if l != fr.Lineno || filepath.Base(f) != filepath.Base(fr.Filename) && filepath.Base(f) != filepath.Base(fr.AbsPath) {
					c.Violate("one-line-source/innermost/"+st.name, "the source location is not the innermost frame of the innermost stack-bearing layer", fmt.Sprintf("%s\ngot %s:%d want %s:%d", t, f, l, fr.Filename, fr.Lineno))
				}
			}
			verbose := redact.Sprintf("%+v", e).Redact().StripMarkers()
			want := pfx + verbose + "\n-- report composition:\n"
			if !strings.HasPrefix(ev.Message, want) {
				c.Violate("message-prefix/"+st.name, "event message does not begin with [file:line: ] + the redacted verbose rendering + composition header",
					fmt.Sprintf("%s\n%s", t, firstDiff(ev.Message, want)))
				return
			}
			rest := strings.TrimPrefix(ev.Message, want)
			rest = strings.TrimSuffix(rest, "\n(check the extra data payloads)")
			lines := strings.Split(rest, "\n")
			if len(lines) != len(vl) {
				c.Violate("composition-lines/"+st.name, "composition does not have exactly one line per layer", fmt.Sprintf("%s\n%d lines, %d layers\n%s", t, len(lines), len(vl), rest))
			}
			var stacks []*errors.ReportableStackTrace
			for _, x := range layers {
				if s := errors.GetReportableStackTrace(x); s != nil {
					stacks = append(stacks, s)
				}
			}
			if len(stacks) < nStackModel {
				c.Violate("stack-layers/"+st.name, "fewer stack-bearing layers than the model says", fmt.Sprintf("%s\n%d vs %d", t, len(stacks), nStackModel))
			}
			wantN := len(stacks)
			if wantN == 0 {
				wantN = 1
			}
			if len(ev.Exception) != wantN {
				c.Violate("exception-count/"+st.name, "number of exceptions is not max(1, number of stack-bearing layers)", fmt.Sprintf("%s\n%d vs %d", t, len(ev.Exception), wantN))
				return
			}
			for i, s := range stacks {
				if !reflect.DeepEqual(ev.Exception[i].Stacktrace, s) {
					c.Violate("exception-order/"+st.name, "exception i does not carry the frames of the i-th stack-bearing layer (outermost first)", fmt.Sprintf("%s\nexception %d", t, i))
					break
				}
			}
			if len(stacks) == 0 && ev.Exception[0].Stacktrace != nil {
				c.Violate("synthetic-exception", "the synthetic exception of a stack-less error carries a stack", t.String())
			}
			dom := string(errors.GetDomain(e))
			if md := model.Annotations(t).Domain; dom != md {
				c.Violate("domain/"+st.name, "the error's domain differs from the model (outermost visible domain layer)", fmt.Sprintf("%s\n%q vs %q", t, dom, md))
			}
			for _, x := range ev.Exception {
				if x.Module != dom {
					c.Violate("module/"+st.name, "exception module is not the error's domain", fmt.Sprintf("%s\n%q vs %q", t, x.Module, dom))
				}
			}
			ts, _ := extras["error types"].(string)
			types := strings.Split(strings.TrimSuffix(ts, "\n"), "\n")
			if len(types) != len(vl) {
				c.Violate("error-types-lines/"+st.name, "'error types' extra does not have one line per layer", fmt.Sprintf("%s\n%d vs %d", t, len(types), len(vl)))
				return
			}
			for i := range types {
				l := vl[len(vl)-1-i]
				typ, fam := l.Family, "*"
				if st.name != "local" || true {
					// the original type name equals the family name unless the type was migrated
					if l.GoType == "*fs.PathError" {
						typ, fam = "io/fs/*fs.PathError", l.Family
					}
				}
				w := fmt.Sprintf("%s (%s::%s)", typ, fam, l.Ext)
				if types[i] != w {
					c.Violate("error-types-line/"+famShort(l.Family), "'error types' line differs from the model (type name and mark, innermost first)", fmt.Sprintf("%s\nstage %s line %d: %q want %q", t, st.name, i, types[i], w))
				}
			}
		}); p != nil {
			c.Violate("panic/report", "BuildSentryReport panicked", fmt.Sprintf("%s\nstage %s: %v", t, st.name, p))
		}
	}
	c.Sample(sample(t, map[string]interface{}{"layers": len(vl), "stack_layers_model": nStackModel}))
}
