// Package mon holds one monitor per property plus shared helpers.
package mon

import (
	"fmt"
	"reflect"
	"strings"
	"syscall"

	"github.com/cockroachdb/errors"
	"github.com/cockroachdb/errors/errorspb"

	"verifharness/core"
	"verifharness/gen"
	"verifharness/model"
	"verifharness/obs"
	"verifharness/sim"
)

// tierN picks a count by tier.
func tierN(quick, thorough int) func(string) int {
	return func(t string) int {
		if t == "thorough" {
			return thorough
		}
		return quick
	}
}

// caseTree picks the tree of a case: the first SweepSize cases are the
// pairwise sweep outer(inner(leaf)); the rest are PRNG-driven.
func caseTree(c *core.Ctx, g *gen.Gen, maxDepth int) *gen.Node {
	if c.Case < gen.SweepSize() {
		return g.Sweep(c.Case)
	}
	// extreme but legal shapes (very deep, very wide, very long, the same value twice): every 24th
	// PRNG-driven case (240th in the thorough tier, which has 30-80x as many cases), the five shapes in turn. They cost 10-100x an
	// ordinary case, most of all in the monitors that evaluate Is over all pairs of layers, which
	// therefore take a quarter as many.
	every := 24
	if c.Prop == "C02" || c.Prop == "C08" || c.Prop == "C04" {
		every = 96
	}
	if c.Prop == "C08" {
		every = 384 // all pairs of layers x all perturbations
	}
	if c.Tier == "thorough" {
		every *= 10 // 30-80x as many cases: 3-8x as many extreme ones
	}
	if k := c.Case - gen.SweepSize(); k%every == every-1 {
		t, shape := g.Extreme(k/every + int(c.Seed))
		c.Cover("extreme-shapes", shape)
		c.Count("extreme-shape-cases", 1)
		return t
	}
	if c.Tier == "thorough" && c.Case%4 == 3 {
		maxDepth += 3 // deeper trees in a quarter of the thorough cases
	}
	return g.Tree(1 + c.R.Intn(maxDepth))
}

// famShort shortens a family name for signatures.
func famShort(f string) string {
	if i := strings.LastIndex(f, "/"); i >= 0 {
		return f[i+1:]
	}
	return f
}

// safeBuild builds the tree, converting a constructor panic into a violation.
func safeBuild(c *core.Ctx, t *gen.Node) (e error, m gen.Built, ok bool) {
	if p := core.Try(func() { e, m = gen.BuildMap(t) }); p != nil {
		c.Violate("build-panic/"+t.Kind, "a constructor panicked", fmt.Sprintf("%s\npanic: %v", t, p))
		return nil, nil, false
	}
	if e == nil {
		c.Violate("build-nil/"+t.Kind, "a constructor returned nil for non-nil input", t.String())
		return nil, nil, false
	}
	return e, m, true
}

// coverTree records kind / adjacency coverage for a tree.
func coverTree(c *core.Ctx, t *gen.Node) {
	// kinds that must not be the outermost layer get a stack layer on top (in place: every
	// monitor calls coverTree on its tree before building or modelling it)
	// (a hidden error is the outermost layer of its own rendering: same treatment)
	if gen.Specs[t.Kind].NoRoot {
		old := *t
		*t = gen.Node{Kind: "withstack", Kids: []*gen.Node{&old}}
	}
	gen.Walk(t, func(n *gen.Node, _ bool) {
		for i, h := range n.Hidden {
			if gen.Specs[h.Kind].NoRoot {
				n.Hidden[i] = &gen.Node{Kind: "withstack", Kids: []*gen.Node{h}}
			}
		}
	})
	gen.Walk(t, func(n *gen.Node, hid bool) {
		c.Cover("kinds", n.Kind)
		for _, k := range n.Kids {
			c.Cover("adjacency", n.Kind+">"+k.Kind)
		}
		for _, k := range n.Hidden {
			c.Cover("adjacency", n.Kind+"~"+k.Kind)
		}
	})
}

// Live is one Go-level layer of a built tree with its model.
type Live struct {
	Err    error
	Node   *gen.Node
	Li     int // own-layer index within Node
	Mark   model.MarkT
	Hidden bool
	Fam    string
}

// index lists every layer of every node (visible and hidden) of a
// built tree together with its model mark. ok=false if the live chain
// is shorter than the model says (reported by the caller's monitor).
func index(t *gen.Node, m gen.Built) (out []Live, problem string) {
	gen.Walk(t, func(n *gen.Node, hid bool) {
		ls := model.OwnLayers(n)
		cur := m[n]
		for li := range ls {
			if cur == nil {
				if problem == "" {
					problem = fmt.Sprintf("node %s: live chain ends before own layer %d (%s)", n.Kind, li, ls[li].GoType)
				}
				return
			}
			out = append(out, Live{Err: cur, Node: n, Li: li, Mark: model.LayerMark(n, li), Hidden: hid, Fam: ls[li].Family})
			cur = errors.UnwrapOnce(cur)
		}
	})
	return
}

// visibleLive returns the layers of index() that belong to the visible tree.
func visibleLive(ix []Live) []Live {
	var out []Live
	for _, l := range ix {
		if !l.Hidden {
			out = append(out, l)
		}
	}
	return out
}

func comparable(e error) bool { return e != nil && reflect.TypeOf(e).Comparable() }

// refIs is the independent reference implementation of the documented
// equivalence. vis are the visible layers of e (with model marks); r is
// the reference with its model mark. useIsMethod=false disables the
// "own Is method" clause (used to decide the C02 exemption).
func refIs(vis []Live, r error, rMark model.MarkT, useIsMethod bool) bool {
	if r == nil {
		return len(vis) == 0
	}
	cmp := comparable(r)
	for _, l := range vis {
		if cmp && comparable(l.Err) && l.Err == r {
			return true
		}
		if useIsMethod {
			if x, ok := l.Err.(interface{ Is(error) bool }); ok && x.Is(r) {
				return true
			}
		}
		if l.Mark.Equal(rMark) {
			return true
		}
	}
	return false
}

// safeIs calls errors.Is, catching panics.
func safeIs(e, r error) (res bool, p interface{}) {
	p = core.Try(func() { res = errors.Is(e, r) })
	return
}

// checkModelShape compares the live visible tree with the model's
// layer list: count, %T, type key and text of every layer.
func checkModelShape(c *core.Ctx, t *gen.Node, e error, sigPrefix string, checkKeys bool) bool {
	nodes := obs.Nodes(e)
	vl := model.Visible(t)
	if len(nodes) != len(vl) {
		c.Violate(sigPrefix+"/layer-count", "number of visible layers differs from the compositional model",
			fmt.Sprintf("%s\nlive %d layers, model %d", t, len(nodes), len(vl)))
		return false
	}
	ok := true
	for i, n := range nodes {
		if !checkKeys {
		} else if got := fmt.Sprintf("%T", n); got != vl[i].GoType {
			c.Violate(sigPrefix+"/layer-type/"+vl[i].GoType, "Go type of a layer differs from the model",
				fmt.Sprintf("%s\nlayer %d: live %s, model %s", t, i, got, vl[i].GoType))
			ok = false
		}
		if got := string(errors.GetTypeKey(n)); checkKeys && got != vl[i].Family {
			c.Violate(sigPrefix+"/type-key/"+famShort(vl[i].Family), "type key of a layer differs from the wire contract table",
				fmt.Sprintf("%s\nlayer %d: live %q, table %q", t, i, got, vl[i].Family))
			ok = false
		}
		if got := n.Error(); got != vl[i].Text {
			c.Violate(sigPrefix+"/text/"+famShort(vl[i].Family), "Error() differs from the compositional model",
				fmt.Sprintf("%s\nlayer %d (%s): got %q want %q", t, i, vl[i].GoType, got, vl[i].Text))
			ok = false
		}
	}
	return ok
}

// treeJSON renders a sample.
func sample(t *gen.Node, extra map[string]interface{}) map[string]interface{} {
	m := map[string]interface{}{"tree": t.String()}
	for k, v := range extra {
		m[k] = v
	}
	return m
}

func driftOwner(a, b *errorspb.EncodedError) string { return famShort(sim.DriftOwner(a, b)) }

type syscallErrno = syscall.Errno

// ---- net.OpError with both a local and a remote address (kind operrboth, weight 0) -------
//
// The library's special-case printer renders such an error as "op net src -> addr", the
// standard library's Error() as "op net src->addr". The spaced form is pinned by the
// repository's own TestRedact, so this is recorded as a known finding and the kind is kept
// out of the random generators; the probes below place it explicitly, so that the finding is
// re-observed (and anything ELSE that goes wrong with this shape is still reported under
// another signature).

const opErrArrowSig = "net.OpError-source-and-addr"

func opErrBothTrees(g *gen.Gen) []*gen.Node {
	leaf := func() *gen.Node { return g.Make("goerr", nil, nil) }
	ob := func() *gen.Node { return g.Make("operrboth", []*gen.Node{leaf()}, nil) }
	return []*gen.Node{ob(), g.Around("wrap", ob()), g.Around("hint", g.Around("wrapf", ob())), g.Make("join", []*gen.Node{ob(), leaf()}, nil)}
}

// arrowOnly: a and b differ, and only in the spacing around the address arrow.
func arrowOnly(a, b string) bool {
	n := func(s string) string { return strings.ReplaceAll(strings.ReplaceAll(s, " -> ", "->"), " ->", "->") }
	return a != b && n(a) == n(b)
}

func arrowClass(a, b string) string {
	if arrowOnly(a, b) {
		return opErrArrowSig
	}
	return "operrboth-other"
}


// repeatLayer puts a second layer with the SAME kind and the SAME arguments as a wrapper that is
// already in the chain on top of the tree, with 0..2 other annotation layers in between (the same
// domain, hint, tag set, code, prefix ... applied twice: code that looks below itself for "what
// the layers underneath already carry" only has something to find then).
func repeatLayer(c *core.Ctx, g *gen.Gen, t *gen.Node) *gen.Node {
	var cands []*gen.Node
	for n := t; n != nil; {
		if gen.Specs[n.Kind].Class == gen.Wrap && len(n.Kids) == 1 && len(n.Hidden) == 0 && !gen.Specs[n.Kind].NoRoot {
			cands = append(cands, n)
		}
		if len(n.Kids) != 1 {
			break
		}
		n = n.Kids[0]
	}
	if len(cands) == 0 {
		// nothing to repeat yet: put a domain layer at the bottom of the new layers
		t = g.Around("domain", t)
		cands = []*gen.Node{t}
	}
	src := cands[c.R.Intn(len(cands))]
	for i, d := 0, c.R.Intn(3); i < d; i++ {
		t = g.Around(annotKinds[c.R.Intn(len(annotKinds))], t)
	}
	c.Cover("repeated-layer-kinds", src.Kind)
	t = &gen.Node{Kind: src.Kind, S: append([]string(nil), src.S...), N: append([]int(nil), src.N...), Kids: []*gen.Node{t}}
	// ... and usually a layer ABOVE the pair that composes its own text from the text of what is
	// below it (a prefix, a barrier, an error argument): the doubly annotated node's own Error() may be
	// right while what its parent reads through the formatter is not
	if above := []string{"", "wrap", "wrapf", "withmsg", "handled", "handledmsg", "newfw", "newfe", "goerrorf", "pkgmsg", "joinbare"}[c.R.Intn(11)]; above != "" {
		t = g.Around(above, t)
	}
	return t
}
