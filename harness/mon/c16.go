package mon

import (
	"fmt"
	"go/ast"
	"go/parser"
	"go/token"
	"os"
	"path/filepath"
	"regexp"
	"sort"
	"strings"

	"github.com/cockroachdb/errors"
	"github.com/cockroachdb/errors/errbase"

	"verifharness/core"
	"verifharness/gen"
	sa "verifharness/sites/a"
	sb "verifharness/sites/b"
	sc "verifharness/sites/common"
)

func init() {
	core.Register(&core.Prop{
		ID: "C16", Level: "fault_enumeration", Exhaustive: true,
		Technique: "call-site bookkeeping monitor: every exported stack-capturing / domain-computing function x depth x call path through non-inlinable helpers in two packages; expected frame = the harness's own runtime.Caller record of the d-th caller; observed through GetReportableStackTrace, GetOneLineSource, GetDomain",
		Rule: "enumerated completely: 64 table entries (42 functions of the root package, errutil, withstack, domains + 22 argument-value variants that take other code paths: empty message / format, error-typed format arguments, %w, nil arguments, an already flagged cause) x 2 defining packages x 7 call paths (0-3 helpers alternating between two packages) x depth 0..min(3, helpers) for functions with a depth parameter. " +
			"Non-trivial = every (function, package, path, depth) tuple; distinct = the tuple. The last case lists exported functions with stack/domain names from the repository's source (go/parser) and reports those missing from the table as unexercised.",
		Cases:       func(string) int { return 2*len(sa.Table) + 1 },
		Floor:       func(string) int { return 300 },
		Run:         runC16,
		Assumptions: []string{"the harness's own runtime.Caller bookkeeping on the same source line is the oracle", "grpc/status.Error/Errorf are outside the enumerated API (they capture their own frame) and are observed but not judged"},
	})
}

func runC16(c *core.Ctx) {
	n := len(sa.Table)
	if c.Case == 2*n {
		listUnexercised(c)
		return
	}
	pkg := "a"
	table := sa.Table
	other, own := sc.HopFn(sb.Hop), sc.HopFn(sa.Hop)
	if c.Case >= n {
		pkg, table = "b", sb.Table
		other, own = sc.HopFn(sa.Hop), sc.HopFn(sb.Hop)
	}
	ent := table[c.Case%n]
	paths := [][]sc.HopFn{{}, {other}, {other, own}, {own, other}, {other, own, other}, {own, other, own}, {other, other, own}}
	for pi, path := range paths {
		maxd := 0
		if ent.HasDepth {
			maxd = len(path)
			if maxd > 3 {
				maxd = 3
			}
		}
		for _, deep := range []int{0, 40, 130} {
			if deep > 0 && pi != 0 && pi != 4 {
				continue
			}
			for d := 0; d <= maxd; d++ {
				tuple := fmt.Sprintf("%s|pkg-%s|path%d|d%d", ent.Name, pkg, pi, d)
				if deep > 0 {
					tuple += fmt.Sprintf("|%d-frames-below", deep)
				}
				c.Cover("extra-frames-below-the-call-path", fmt.Sprint(deep))
				c.Nontrivial(tuple)
				c.Cover("function", ent.Name)
				c.Cover("depth", fmt.Sprint(d))
				var tr []sc.Frame
				var res sc.R
				if p := core.Try(func() {
					sc.Deep(deep, func() {
						if len(path) == 0 {
							res = ent.Call(d, &tr)
						} else {
							res = path[0](path[1:], ent.Call, d, &tr)
						}
					})
				}); p != nil {
					c.Violate("panic/"+ent.Name, "constructor panicked", fmt.Sprintf("%s: %v", tuple, p))
					continue
				}
				if len(tr) != len(path)+1 {
					c.Inconclusive(fmt.Sprintf("harness: %s recorded %d frames for %d helpers", tuple, len(tr), len(path)))
					continue
				}
				want := tr[d]
				if c.Case%7 == 0 && pi == 4 && d == maxd {
					c.Sample(map[string]interface{}{"tuple": tuple, "expected_frame": want, "recorded_call_path": tr})
				}
				if ent.HasStack {
					c.Count("stack-observations", 1)
					checkStack(c, ent.Name, tuple, res.Err, want)
				}
				if ent.IsDomain {
					c.Count("domain-observations", 1)
					wd := "error domain: pkg " + filepath.Dir(want.File)
					if string(res.Dom) != wd {
						c.Violate("domain/"+ent.Name, "package domain does not denote the package of the d-th caller", fmt.Sprintf("%s\ngot %q want %q", tuple, res.Dom, wd))
					}
				}
			}
		}
	}
}

func checkStack(c *core.Ctx, name, tuple string, err error, want sc.Frame) {
	if err == nil {
		c.Violate("nil/"+name, "constructor returned nil", tuple)
		return
	}
	var st *errors.ReportableStackTrace
	for x := err; x != nil && st == nil; x = errors.UnwrapOnce(x) {
		st = errors.GetReportableStackTrace(x)
	}
	if st == nil || len(st.Frames) == 0 {
		c.Violate("no-stack/"+name, "no stack trace captured", tuple)
		return
	}
	f := st.Frames[len(st.Frames)-1]
	gotFn := f.Module + "." + f.Function
	if gotFn != want.Func || f.Lineno != want.Line || (f.AbsPath != want.File && f.Filename != want.File) {
		c.Violate("first-frame/"+name, "first frame of the captured stack is not the expected caller",
			fmt.Sprintf("%s\ngot  %s %s:%d\nwant %s %s:%d", tuple, gotFn, f.AbsPath, f.Lineno, want.Func, want.File, want.Line))
	}
	// what StackTrace() returns belongs to the caller: scribbling on it must not change the error
	for x := err; x != nil; x = errors.UnwrapOnce(x) {
		if sp, ok := x.(errbase.StackTraceProvider); ok {
			tr := sp.StackTrace()
			for i, j := 0, len(tr)-1; i < j; i, j = i+1, j-1 {
				tr[i], tr[j] = tr[j], tr[i]
			}
			for i := range tr {
				tr[i] = 0
			}
		}
	}
	if st2 := func() *errors.ReportableStackTrace {
		for x := err; x != nil; x = errors.UnwrapOnce(x) {
			if s := errors.GetReportableStackTrace(x); s != nil {
				return s
			}
		}
		return nil
	}(); st2 == nil || len(st2.Frames) == 0 || st2.Frames[len(st2.Frames)-1].Lineno != want.Line || st2.Frames[len(st2.Frames)-1].Module+"."+st2.Frames[len(st2.Frames)-1].Function != want.Func {
		c.Violate("stack-aliased/"+name, "modifying the slice returned by StackTrace() changes the error's recorded stack", tuple)
	}
	// the INNERMOST stack wins: wrapping the result — with another stack, with foreign
	// wrappers that expose only Cause() or only Unwrap() — must not change the answer
	f1, l1, fn1, ok1 := errors.GetOneLineSource(err)
	for wn, w := range map[string]error{
		"WithStack(WithHint)":   errors.WithStack(errors.WithHint(err, "h")),
		"Cause-only":            &gen.CauseWrap{C: err, Msg: "w"},
		"Unwrap-only":           &gen.NoFmtWrap{C: err, Msg: "w"},
		"WithStack(Cause-only)": errors.WithStack(&gen.CauseWrap{C: err, Msg: "w"}),
		"Wrap(Unwrap-only)":     errors.Wrap(&gen.NoFmtWrap{C: err, Msg: "w"}, "p"),
		"fmt.Errorf(%w)":        fmt.Errorf("x: %w", err),
	} {
		f2, l2, fn2, ok2 := errors.GetOneLineSource(w)
		if f1 != f2 || l1 != l2 || fn1 != fn2 || ok1 != ok2 {
			c.Violate("one-line-source-innermost/"+wn, "GetOneLineSource does not report the innermost stack through a wrapper", fmt.Sprintf("%s under %s\n%s:%d %s (%v) vs %s:%d %s (%v)", tuple, wn, f1, l1, fn1, ok1, f2, l2, fn2, ok2))
		}
	}
	file, line, fn, ok := errors.GetOneLineSource(err)
	// the library reports the last dot-separated component of the function name
	short := want.Func[strings.LastIndex(want.Func, ".")+1:]
	if !ok || line != want.Line || (file != want.File && file != filepath.Base(want.File)) || fn != short {
		c.Violate("one-line-source/"+name, "GetOneLineSource does not report file, line and function of the expected frame",
			fmt.Sprintf("%s\ngot  %s:%d %s (%v)\nwant %s:%d %s", tuple, file, line, fn, ok, want.File, want.Line, short))
	}
}

var stackName = regexp.MustCompile(`^(New|Newf|Errorf|NewWithDepthf?|Wrapf?|WrapWithDepthf?|WithStack|WithStackDepth|AssertionFailedf|AssertionFailedWithDepthf|HandleAsAssertionFailure(Depth)?|NewAssertionErrorWithWrappedErr(Depth)?f|Join|JoinWithDepth|PackageDomain(AtDepth)?|Handled)$`)

// listUnexercised parses the repository and reports exported functions
// with stack/domain names that the table does not enumerate.
func listUnexercised(c *core.Ctx) {
	have := map[string]bool{}
	for _, e := range sa.Table {
		name := e.Name
		if i := strings.Index(name, "("); i > 0 {
			name = name[:i] // argument-value variant of the same function
		}
		have[name] = true
	}
	repo := "/repo"
	if r := os.Getenv("VERIF_REPO"); r != "" {
		repo = r
	}
	dirs := map[string]string{"errors": repo, "errutil": repo + "/errutil", "withstack": repo + "/withstack", "domains": repo + "/domains"}
	var missing []string
	listed := 0
	for pkg, dir := range dirs {
		fset := token.NewFileSet()
		files, _ := filepath.Glob(dir + "/*.go")
		for _, f := range files {
			if strings.HasSuffix(f, "_test.go") {
				continue
			}
			af, err := parser.ParseFile(fset, f, nil, 0)
			if err != nil {
				continue
			}
			for _, d := range af.Decls {
				fd, ok := d.(*ast.FuncDecl)
				if !ok || fd.Recv != nil || !fd.Name.IsExported() || !stackName.MatchString(fd.Name.Name) {
					continue
				}
				if pkg == "domains" && (fd.Name.Name == "Handled" || fd.Name.Name == "New" || strings.HasPrefix(fd.Name.Name, "PackageDomain")) || pkg != "domains" && fd.Name.Name != "Handled" {
					listed++
					name := pkg + "." + fd.Name.Name
					if !have[name] {
						missing = append(missing, name)
					}
				}
			}
		}
	}
	sort.Strings(missing)
	c.Count("api-functions-listed-from-source", listed)
	for _, m := range missing {
		c.Cover("unexercised-api-function", m)
	}
	c.Nontrivial("api-listing")
}
