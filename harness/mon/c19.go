package mon

import (
	"fmt"
	"reflect"
	"sort"
	"strings"

	"github.com/cockroachdb/errors"
	"github.com/cockroachdb/errors/extgrpc"
	"github.com/cockroachdb/errors/exthttp"

	"verifharness/core"
	"verifharness/gen"
	"verifharness/model"
	"verifharness/obs"
	"verifharness/sim"
)

func init() {
	core.Register(&core.Prop{
		ID: "C19", Level: "exploration",
		Technique: "reference-model monitor: every aggregation accessor (GetAllHints, FlattenHints, GetAllDetails, FlattenDetails, GetAllIssueLinks, GetTelemetryKeys, GetDomain, GetContextTags, Has*/Is* flags, HTTP/gRPC codes) vs an independent model over the visible single-cause chain",
		Rule: "per case one tree (pairwise sweep, then PRNG depth<=9 biased towards annotation wrappers) whose strings come from a 9-word pool with repeats, empties and a string equal to a standard hint. " +
			"Non-trivial = chain with >=2 annotation layers of the same accessor family or a repeated hint; distinct = kind-tree signature + string multiset.",
		Cases: func(t string) int { return gen.SweepSize() + tierN(4000, 400000)(t) },
		Floor: tierN(500, 5000),
		Run:   runC19,
		Assumptions: []string{"the accessor model of harness/model (hints innermost first, first occurrence wins, empties dropped, standard hints of assertion / unimplemented / issue-link layers; details innermost first without de-duplication; links and tags outermost first; keys as a set)"},
	})
}

var annotKinds = []string{"hint", "hint", "detail", "detail", "hintf", "detailf", "telemetry0", "issuelinkd", "issuelinku", "issuelink", "telemetry", "tags", "tagsafe", "domain", "assertion", "http", "grpc", "safedetails", "safedetails0", "handleddomain", "domainnone", "domainraw", "hdwrap", "hdwrap"}

var c19Words = []string{"h1", "h2", "", "h1", "k", "See: u", model.AssertHint + model.Referral, "d", "h2", "a ‹b› c"}

var c19ManyWords = []string{"m1", "m2", "m3", "m4", "m5", "m6", "m7", "m8", "m9", "m10", "m11", "m12", "m13", "m14", "m15", "m16", model.AssertHint + model.Referral, "See: u"}

type annObs struct {
	Hints, Details []string
	Links          [][2]string
	Keys           []string
	Domain         string
	Tags           []string
	Flags          [6]bool
	HTTP, GRPC     int
}

func observeAnn(e error) annObs {
	o := annObs{}
	o.Hints = errors.GetAllHints(e)
	o.Details = errors.GetAllDetails(e)
	for _, l := range errors.GetAllIssueLinks(e) {
		o.Links = append(o.Links, [2]string{l.IssueURL, l.Detail})
	}
	set := map[string]bool{}
	for _, k := range errors.GetTelemetryKeys(e) {
		set[k] = true
	}
	for k := range set {
		o.Keys = append(o.Keys, k)
	}
	sort.Strings(o.Keys)
	o.Domain = string(errors.GetDomain(e))
	o.Tags = obs.TagsOf(e)
	o.Flags = [6]bool{errors.HasAssertionFailure(e), errors.IsAssertionFailure(e), errors.HasUnimplementedError(e), errors.IsUnimplementedError(e), errors.HasIssueLink(e), errors.IsIssueLink(e)}
	o.HTTP = exthttp.GetHTTPCode(e, -1)
	o.GRPC = int(extgrpc.GetGrpcCode(e))
	return o
}

func modelAnn(t *gen.Node) annObs {
	a := model.Annotations(t)
	return annObs{Hints: a.Hints, Details: a.Details, Links: a.Links, Keys: a.Keys, Domain: a.Domain, Tags: a.Tags,
		Flags: [6]bool{a.HasAssert, a.IsAssert, a.HasUnimpl, a.IsUnimpl, a.HasLink, a.IsLink}, HTTP: a.HTTP, GRPC: a.GRPC}
}

// compareAnn reports every field on which got and want differ.
func compareAnn(got, want annObs, f func(field, g, w string)) {
	gv, wv := reflect.ValueOf(got), reflect.ValueOf(want)
	for i := 0; i < gv.NumField(); i++ {
		a, b := gv.Field(i).Interface(), wv.Field(i).Interface()
		if fmt.Sprintf("%q", a) != fmt.Sprintf("%q", b) {
			f(gv.Type().Field(i).Name, fmt.Sprintf("%q", a), fmt.Sprintf("%q", b))
		}
	}
}

func runC19(c *core.Ctx) {
	g := gen.New(c.R)
	g.Str = gen.Pool(c19Words)
	var t *gen.Node
	if c.Case < gen.SweepSize() {
		t = g.Sweep(c.Case)
	} else {
		// a chain of 2..9 wrappers, three quarters of them annotation wrappers,
		// over an arbitrary small tree
		t = g.Tree(1 + c.R.Intn(3))
		for i, d := 0, 2+c.R.Intn(8); i < d; i++ {
			k := annotKinds[c.R.Intn(len(annotKinds))]
			if c.R.Intn(4) == 0 {
				k = gen.WrapKinds[c.R.Intn(len(gen.WrapKinds))]
			}
			t = g.Around(k, t)
		}
	}
	if c.Case%8 == 3 && c.Case >= gen.SweepSize() {
		// MANY annotations: 10..28 layers, mostly hints and details, texts from a pool of 18 with
		// repeats far apart (de-duplication that keeps its state in a structure which changes
		// representation once it has grown only shows beyond a handful of distinct texts)
		g.Str = gen.Pool(c19ManyWords)
		t = g.Tree(1 + c.R.Intn(2))
		many := []string{"hint", "hint", "hint", "hintf", "detail", "detailf", "hdwrap", "assertion", "issuelink", "telemetry"}
		for i, d := 0, 10+c.R.Intn(19); i < d; i++ {
			t = g.Around(many[c.R.Intn(len(many))], t)
		}
		c.Count("many-annotation-chains", 1)
		g.Str = gen.Pool(c19Words)
	}
	if c.Case%10 == 4 {
		// two code layers of the same family: the outer one wins, also when it carries the
		// "nothing attached" default value (codes.Unknown, which is 2)
		inner := &gen.Node{Kind: "grpc", N: []int{[]int{1, 3, 5, 9, 14, 16}[c.R.Intn(6)]}, Kids: []*gen.Node{t}}
		t = &gen.Node{Kind: "grpc", N: []int{[]int{2, 2, 7, 0}[c.R.Intn(4)]}, Kids: []*gen.Node{g.Around("hint", inner)}}
	}
	coverTree(c, t)
	e, _, ok := safeBuild(c, t)
	if !ok {
		return
	}
	var got annObs
	if p := core.Try(func() { got = observeAnn(e) }); p != nil {
		c.Violate("panic/accessors", "an accessor panicked", fmt.Sprintf("%s\n%v", t, p))
		return
	}
	want := modelAnn(t)
	// non-trivial: two layers feeding the same accessor, or a repeated hint
	ch := model.Chain(t)
	nh, nd, nl, nk, nt := 0, 0, 0, 0, 0
	for _, l := range ch {
		if l.HasHint {
			nh++
		}
		if l.HasDetail {
			nd++
		}
		if l.Link != nil {
			nl++
		}
		if l.Keys != nil {
			nk++
		}
		if l.Tags != nil {
			nt++
		}
	}
	if nh >= 2 || nd >= 2 || nl >= 2 || nk >= 2 || nt >= 2 {
		var ss []string
		gen.Walk(t, func(n *gen.Node, _ bool) { ss = append(ss, n.S...) })
		c.Nontrivial(t.Sig() + "|" + strings.Join(ss, "\x01"))
	}
	c.Count("accessor-records-compared", 1)
	compareAnn(got, want, func(field, gs, ws string) {
		c.Violate("accessor/"+field, "aggregation accessor differs from the model", fmt.Sprintf("%s\n%s: got %s\n   want %s", t, field, gs, ws))
	})
	// the predicates derived from the domain: NotInDomain(e, own domain ...) is false, NotInDomain(e, others) true,
	// EnsureNotInDomain keeps an error that is outside the forbidden domains and moves one that is inside
	if p := core.Try(func() {
		if nd := obs.Annotations(e)["notindomain"]; nd != "false false true true true true" {
			c.Violate("accessor/NotInDomain", "NotInDomain / EnsureNotInDomain disagree with GetDomain", fmt.Sprintf("%s\n%s", t, nd))
		}
	}); p != nil {
		c.Violate("panic/NotInDomain", "NotInDomain / EnsureNotInDomain panicked", fmt.Sprintf("%s\n%v", t, p))
	}
	if fh := errors.FlattenHints(e); fh != strings.Join(got.Hints, "\n--\n") {
		c.Violate("flatten/hints", "FlattenHints is not the hints joined by a '--' line", fmt.Sprintf("%s\n%q", t, fh))
	}
	if fd := errors.FlattenDetails(e); fd != strings.Join(got.Details, "\n--\n") {
		c.Violate("flatten/details", "FlattenDetails is not the details joined by a '--' line", fmt.Sprintf("%s\n%q", t, fd))
	}
	// what the accessors return belongs to the caller (callers sort telemetry keys in place):
	// scribbling on the returned slices must not change the error
	if p := core.Try(func() {
		if k := errors.GetTelemetryKeys(e); len(k) > 0 {
			sort.Strings(k)
			for i := range k {
				k[i] = "scribbled"
			}
		}
		if h := errors.GetAllHints(e); len(h) > 0 {
			h[0] = "scribbled"
		}
		if d := errors.GetAllDetails(e); len(d) > 0 {
			d[len(d)-1] = "scribbled"
		}
		if l := errors.GetAllIssueLinks(e); len(l) > 0 {
			l[0].IssueURL, l[0].Detail = "scribbled", "scribbled"
		}
		again := observeAnn(e)
		compareAnn(again, want, func(field, gs, ws string) {
			c.Violate("accessor-aliased/"+field, "modifying the slice an accessor returned changes what the error reports afterwards", fmt.Sprintf("%s\n%s: got %s\n   want %s", t, field, gs, ws))
		})
	}); p != nil {
		c.Violate("panic/scribble", "accessor panicked", fmt.Sprintf("%s\n%v", t, p))
	}
	// the same accessors on the error decoded at a knowing process
	if p := core.Try(func() {
		d, _ := sim.Hop(e)
		gd := observeAnn(d)
		c.Count("accessor-records-compared", 1)
		compareAnn(gd, want, func(field, gs, ws string) {
			c.Violate("accessor-decoded/"+field, "aggregation accessor of the decoded error differs from the model", fmt.Sprintf("%s\n%s: got %s\n   want %s", t, field, gs, ws))
		})
	}); p != nil {
		c.Violate("panic/decoded", "hop or accessor panicked", fmt.Sprintf("%s\n%v", t, p))
	}
	c.Sample(sample(t, map[string]interface{}{"hints": got.Hints, "details": got.Details, "keys": got.Keys, "tags": got.Tags, "links": got.Links}))
}
