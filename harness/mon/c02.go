package mon

import (
	"runtime"
	"fmt"
	"math/rand"
	"strings"

	"github.com/cockroachdb/errors"

	"verifharness/core"
	"verifharness/gen"
	"verifharness/obs"
	"verifharness/sim"
)

func init() {
	core.Register(&core.Prop{
		ID: "C02", Level: "exploration",
		Technique: "differential monitor over recorded histories: Is/IsAny answers before transfer vs after hop sequences mixing knowing and unknowing (registry-forgetting hook) processes, for e, for r, and for both",
		Rule: "per case one tree e (pairwise sweep, then PRNG depth<=5; the harness type with a custom Is method is excluded from e) and the C08 reference pool (layers of e incl. hidden, sentinels, errnos, independent tree, perturbed near-equal copies). " +
			"Histories for e: K, KK, U(all)K, U(subset)K, K U(subset) K; r: K and U(all)K; both; both at an unknowing observer. Non-trivial = case with >=1 positive and >=1 negative pair; distinct = kind-tree signature.",
		Cases: func(t string) int { return gen.SweepSize() + tierN(600, 60000)(t) },
		Floor: tierN(500, 5000),
		Run:   runC02,
		Assumptions: []string{"the before-transfer answer is the oracle (tied to the documented equivalence by C08)",
			"an unknowing process = the same binary with the decoders for the chosen type keys removed during decode (hook VerifForgetTypes)",
			"pairs whose local match is attributable only to a foreign type's own Is method are exempt when r (or both) are transferred, as the statement says"},
	})
}

func subset(r *rand.Rand, keys []string) []string {
	var out []string
	for _, k := range keys {
		if r.Intn(2) == 0 {
			out = append(out, k)
		}
	}
	if len(out) == 0 && len(keys) > 0 {
		out = append(out, keys[r.Intn(len(keys))])
	}
	return out
}

func runC02(c *core.Ctx) {
	g := gen.New(c.R)
	g.Allowed = func(k string) bool { return k != "isleaf" && k != "multiis" }
	w := newIsWorld(c, g, 5, true)
	if w == nil {
		return
	}
	t, e := w.T, w.E
	checkModelShape(c, t, e, "model", true)
	keys := sim.KeysOf(e)
	K := sim.Proc{}
	// in every second case the unknowing processes do not link the payload message types either
	Uall := sim.Proc{Forget: keys, NoProto: c.Case%2 == 1}
	Usub := sim.Proc{Forget: subset(c.R, keys), NoProto: c.Case%2 == 1}
	type hist struct {
		name string
		h    []sim.Proc
	}
	hists := []hist{{"K", []sim.Proc{K}}, {"K.K", []sim.Proc{K, K}}, {"Uall.K", []sim.Proc{Uall, K}}, {"Usub.K", []sim.Proc{Usub, K}}, {"K.Usub.K", []sim.Proc{K, Usub, K}}}
	if c.Tier == "thorough" {
		hists = append(hists, hist{"Uall.Usub.K.K", []sim.Proc{Uall, Usub, K, K}}, hist{"Usub.Uall.K", []sim.Proc{Usub, Uall, K}})
	}
	before := make([]bool, len(w.Refs))
	exempt := make([]bool, len(w.Refs))
	pos, neg := 0, 0
	anyBefore := false
	var refs []error
	for i, r := range w.Refs {
		got, p := safeIs(e, r.Err)
		if p != nil {
			c.Violate("is-panic/before", "Is panicked before transfer", fmt.Sprintf("%s\nref %T %q: %v", t, r.Err, r.Err, p))
			return
		}
		before[i] = got
		refs = append(refs, r.Err)
		if got {
			pos++
			anyBefore = true
			exempt[i] = !refIs(w.Vis, r.Err, r.Mark, false)
			if exempt[i] {
				c.Count("exempt-pairs(is-method-identity)", 1)
			}
		} else {
			neg++
		}
	}
	if pos > 0 && neg > 0 {
		c.Nontrivial(t.Sig())
	}
	describe := func(r Ref) string {
		return fmt.Sprintf("ref (%s, layer %d of %s) %T %q", r.Origin, r.Li, r.Tree, r.Err, r.Err)
	}
	var eK error
	// e transferred
	for _, h := range hists {
		var eh error
		if p := core.Try(func() { eh = sim.Transfer(e, h.h) }); p != nil || eh == nil {
			c.Violate("transfer-panic/"+h.name, "transfer panicked or returned nil", fmt.Sprintf("%s\n%v", t, p))
			continue
		}
		if h.name == "K" {
			eK = eh
		}
		c.Cover("history-e", h.name)
		for i, r := range w.Refs {
			c.Count("pairs-e-transferred", 1)
			got, p := safeIs(eh, r.Err)
			if p != nil {
				c.Violate("is-panic/e-transferred", "Is panicked after transfer", fmt.Sprintf("%s\nhistory %s, %s: %v", t, h.name, describe(r), p))
				continue
			}
			if got != before[i] {
				c.Violate(fmt.Sprintf("e-transferred/before=%v/%s", before[i], famShort(r.Fam)), "Is(e,r) changed after e crossed the network",
					fmt.Sprintf("%s\nhistory %s (forgot %v)\n%s\nbefore %v after %v", t, h.name, forgetOf(h.h), describe(r), before[i], got))
			}
		}
		var anyAfter bool
		if p := core.Try(func() { anyAfter = errors.IsAny(eh, refs...) }); p != nil || anyAfter != anyBefore {
			c.Violate("isany/e-transferred", "IsAny changed after transfer", fmt.Sprintf("%s\nhistory %s: before %v after %v (%v)", t, h.name, anyBefore, anyAfter, p))
		}
	}
	// e arrives from a sender on ANOTHER PLATFORM (its errnos stay opaque at the receiver), directly and relayed
	if t.HasKind("errno") {
		core.Try(func() {
			archs := []string{"plan9:mips", runtime.GOOS + ":mips64", "windows:" + runtime.GOARCH}
			enc := errors.EncodeError(sim.Ctx, e)
			if rewriteArch(&enc, archs[c.Case%len(archs)], int64(c.Case%2)*1000) == 0 {
				return
			}
			cur := sim.DecBytes(sim.Marshal(enc))
			for hop := 1; hop <= 2; hop++ {
				c.Cover("history-e", fmt.Sprintf("foreign-platform-sender.hop%d", hop))
				for i, r := range w.Refs {
					c.Count("pairs-e-transferred", 1)
					if got, p := safeIs(cur, r.Err); p != nil {
						c.Violate("is-panic/e-from-foreign-platform", "Is panicked after transfer", fmt.Sprintf("%s\n%s: %v", t, describe(r), p))
					} else if got != before[i] && (!before[i] || r.Origin == "sentinel" && !strings.Contains(r.Fam, "syscall.Errno")) {
						// (an errno of another platform is deliberately NOT identified with the local errno of the
						// same name: positive answers against locally built references carry no obligation; the
						// sentinels it matched at its origin do, and so does every negative answer)
						c.Violate(fmt.Sprintf("e-from-foreign-platform/before=%v/%s", before[i], famShort(r.Fam)), "Is(e,r) changed after e arrived from a sender on another platform",
							fmt.Sprintf("%s\nhop %d\n%s\nbefore %v after %v", t, hop, describe(r), before[i], got))
					}
				}
				cur, _ = sim.Hop(cur)
			}
		})
	}
	// r transferred, and both
	// The unknowing *observer* runs the same library but does not know
	// any third-party / user type (migration scenario 5): a process that
	// lacks the library's own wrapper types (withMark, withDomain, ...)
	// cannot honour their semantics and is not claimed by the statement.
	var eU error
	core.Try(func() { eU = sim.Transfer(e, []sim.Proc{{Forget: nonLibrary(keys)}}) })
	for i, r := range w.Refs {
		if exempt[i] {
			continue
		}
		var rK, rUK, rU error
		if p := core.Try(func() {
			rK = sim.Transfer(r.Err, []sim.Proc{K})
			rkeys := sim.KeysOf(r.Err)
			rUK = sim.Transfer(r.Err, []sim.Proc{{Forget: rkeys}, K})
			rU = sim.Transfer(r.Err, []sim.Proc{{Forget: nonLibrary(rkeys)}})
		}); p != nil {
			c.Violate("transfer-panic/ref", "transfer of a reference panicked", fmt.Sprintf("%s: %v", describe(r), p))
			continue
		}
		type pair struct {
			name string
			a, b error
		}
		pairs := []pair{{"r-transferred(K)", e, rK}, {"r-transferred(U.K)", e, rUK}, {"both-transferred(K,K)", eK, rK}, {"both-transferred(K,U.K)", eK, rUK}, {"both-at-unknowing-observer", eU, rU}}
		for _, pr := range pairs {
			if pr.a == nil || pr.b == nil {
				continue
			}
			c.Count("pairs-r-or-both-transferred", 1)
			c.Cover("history-r", pr.name)
			got, p := safeIs(pr.a, pr.b)
			if p != nil {
				c.Violate("is-panic/"+pr.name, "Is panicked after transfer", fmt.Sprintf("%s\n%s: %v", t, describe(r), p))
				continue
			}
			if got != before[i] {
				sig := fmt.Sprintf("%s/before=%v/%s", pr.name, before[i], famShort(r.Fam))
				if pr.name == "both-at-unknowing-observer" {
					// localise: did the unknowing observer see another text than the origin?
					if d, owner, want, got := obs.Diff4(obs.ShapeOf(r.Err), obs.ShapeOf(rU)); d != "" {
						sig = pr.name + "/text-changed/" + famShort(owner) + "/" + textFault(want, got)
					} else if d, owner, want, got := obs.Diff4(obs.ShapeOf(e), obs.ShapeOf(eU)); d != "" {
						sig = pr.name + "/text-changed/" + famShort(owner) + "/" + textFault(want, got)
					}
				}
				c.Violate(sig, "Is(e,r) changed after the reference (or both) crossed the network",
					fmt.Sprintf("%s\n%s\n%s\nbefore %v after %v", t, pr.name, describe(r), before[i], got))
			}
		}
	}
	c.Sample(sample(t, map[string]interface{}{"refs": len(w.Refs), "positive_pairs": pos, "negative_pairs": neg, "type_keys": keys, "forgotten_subset": Usub.Forget}))
}

func forgetOf(h []sim.Proc) [][]string {
	var out [][]string
	for _, p := range h {
		out = append(out, p.Forget)
	}
	return out
}

func nonLibrary(keys []string) []string {
	var out []string
	for _, k := range keys {
		if !strings.HasPrefix(k, "github.com/cockroachdb/errors/") {
			out = append(out, k)
		}
	}
	return out
}
