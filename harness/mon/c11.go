package mon

import (
	"runtime"
	"fmt"
	"strings"

	"github.com/cockroachdb/errors"
	"github.com/cockroachdb/errors/errorspb"
	"github.com/gogo/protobuf/proto"
	"github.com/gogo/protobuf/types"

	"verifharness/core"
	"verifharness/gen"
	"verifharness/obs"
	"verifharness/sim"
)

func init() {
	core.Register(&core.Prop{
		ID: "C11", Level: "exploration",
		Technique: "differential monitor over recorded hops: every annotation accessor, per-layer safe details, every frame of every reportable stack and the one-line source, before the first hop vs after hops 1..k; extra history with an errno encoded on a foreign platform",
		Rule: "per case one tree (pairwise sweep, then PRNG depth<=7 biased to annotation wrappers), regular strings; k = 3 (quick) / 6 (thorough) knowing hops. Trees that contain an errno are additionally sent with the ErrnoPayload.arch rewritten (sender on another OS): 'before' is the first receiver's record. " +
			"Non-trivial = tree with >=2 annotation layers or a stack-bearing layer below another wrapper; distinct = kind-tree signature.",
		Cases: func(t string) int { return gen.SweepSize() + tierN(3000, 300000)(t) },
		Floor: tierN(500, 5000),
		Run:   runC11,
		Assumptions: []string{"the origin's observation is the oracle (tied to the accessor model by C19 and to call sites by C16)", "safe details of barrier / secondary layers are excluded, as the statement says"},
	})
}

func annRecord(e error) obs.Rec {
	o := obs.Annotations(e)
	for k, v := range obs.PerNode(e) {
		o[k] = v
	}
	return o
}

// rewriteArch makes every errno payload look as if sent from another platform.
func rewriteArch(enc *errorspb.EncodedError, arch string, shift int64) (n int) {
	sim.VisitDetails(enc, func(d *errorspb.EncodedErrorDetails, _ bool) {
		if d.FullDetails == nil || !strings.HasSuffix(d.FullDetails.TypeUrl, "/cockroach.errorspb.ErrnoPayload") {
			return
		}
		var p errorspb.ErrnoPayload
		if err := proto.Unmarshal(d.FullDetails.Value, &p); err != nil {
			return
		}
		p.Arch = arch
		p.OrigErrno += shift // the same error has another number in the sender's table
		if a, err := types.MarshalAny(&p); err == nil {
			d.FullDetails = a
			n++
		}
	})
	return
}

func runC11(c *core.Ctx) {
	g := gen.New(c.R)
	if c.Case%8 == 6 {
		g.Str = gen.RegularBin // texts with a byte sequence that is not valid UTF-8 (the comparison is differential)
	}
	var t *gen.Node
	if c.Case < gen.SweepSize() {
		t = g.Sweep(c.Case)
	} else {
		t = g.Tree(1 + c.R.Intn(5))
		for i, d := 0, c.R.Intn(4); i < d; i++ {
			t = g.Around(annotKinds[c.R.Intn(len(annotKinds))], t)
		}
	}
	if c.Case >= gen.SweepSize() && c.Case%10 == 7 {
		// OS predicates that come from TWO places: an errno (under an optional os wrapper), and a
		// Mark with / a Join branch that is one of the os sentinels -- each answers for itself
		en := g.Make("errno", nil, nil)
		if c.R.Intn(2) == 0 {
			en = g.Around([]string{"patherr", "syscallerr", "wrap", "linkerr"}[c.R.Intn(4)], en)
		}
		sn := &gen.Node{Kind: "sentinel", N: []int{[]int{2, 3, 4, 13}[c.R.Intn(4)]}} // os.ErrNotExist, ErrPermission, ErrExist, ErrDeadlineExceeded
		switch c.R.Intn(3) {
		case 0:
			t = &gen.Node{Kind: "mark", Kids: []*gen.Node{en}, Hidden: []*gen.Node{sn}}
		case 1:
			t = g.Make("join", []*gen.Node{en, sn}, nil)
		default:
			t = g.Make("gojoin", []*gen.Node{sn, en}, nil)
		}
		if c.R.Intn(2) == 0 {
			t = g.Around("wrap", t)
		}
	}
	coverTree(c, t)
	e, _, ok := safeBuild(c, t)
	if !ok {
		return
	}
	if t.Depth() >= 3 {
		c.Nontrivial(t.Sig())
	}
	hops := 3
	if c.Tier == "thorough" {
		hops = 6
	}
	compare := func(before obs.Rec, cur error, what string, k int) bool {
		var after obs.Rec
		if p := core.Try(func() { after = annRecord(cur) }); p != nil {
			c.Violate("panic/observe", "an accessor panicked on a decoded error", fmt.Sprintf("%s\n%s hop %d: %v", t, what, k, p))
			return false
		}
		c.Count("records-compared", 1)
		c.Count("fields-compared", len(before))
		if diff := obs.DiffRec(before, after, nil); len(diff) > 0 {
			key := diff[0]
			owner := ""
			if strings.HasPrefix(key, "node") {
				if tk, ok := before[key[:7]+".type"]; ok {
					owner = "/" + famShort(strings.Split(tk, "|")[1])
				}
			}
			c.Violate(what+"/"+recKeyClass(key)+owner, "an annotation changed across a hop between knowing processes",
				fmt.Sprintf("%s\n%s, hop %d, field %s:\n before: %s\n after:  %s", t, what, k, key, trimS(before[key], 1500), trimS(after[key], 1500)))
			return false
		}
		return true
	}
	var before obs.Rec
	if p := core.Try(func() { before = annRecord(e) }); p != nil {
		c.Violate("panic/observe-origin", "an accessor panicked at the origin", fmt.Sprintf("%s\n%v", t, p))
		return
	}
	cur := e
	for k := 1; k <= hops; k++ {
		if p := core.Try(func() { cur, _ = sim.Hop(cur) }); p != nil || cur == nil {
			c.Violate("panic/hop", "hop panicked", fmt.Sprintf("%s\n%v", t, p))
			return
		}
		if !compare(before, cur, "transfer", k) {
			break
		}
	}
	if t.HasKind("errno") {
		c.Count("foreign-errno-histories", 1)
		core.Try(func() {
			// the sender: another OS, the same OS on another CPU architecture, something unheard of;
			// with the same or with another number for the same error
			archs := []string{"plan9:mips", runtime.GOOS + ":mips64", runtime.GOOS + ":" + runtime.GOARCH + "be", "windows:" + runtime.GOARCH, "OTHER"}
			arch, shift := archs[c.Case%len(archs)], int64(c.Case/len(archs)%2)*1000
			c.Cover("foreign-errno-sender", fmt.Sprintf("%s/number-shift=%d", strings.Replace(arch, runtime.GOOS, "sameOS", 1), shift))
			enc := errors.EncodeError(sim.Ctx, e)
			if rewriteArch(&enc, arch, shift) == 0 {
				return
			}
			first := sim.DecBytes(sim.Marshal(enc))
			b0 := annRecord(first)
			// what the sender determined (text, predicates, accessor results) holds at the first receiver
			if first.Error() != e.Error() {
				c.Violate("foreign-errno/text", "the text of an error containing an errno from another platform changed at the first receiver", fmt.Sprintf("%s\nsender %s shift %d\n before: %q\n after:  %q", t, arch, shift, e.Error(), first.Error()))
			}
			for _, k := range []string{"os", "hints", "details", "links", "keys", "domain", "tags", "flags", "http", "grpc"} {
				if before[k] != b0[k] {
					c.Violate("foreign-errno/first/"+k, "an annotation of an error containing an errno from another platform changed at the first receiver", fmt.Sprintf("%s\nsender %s shift %d, field %s:\n before: %s\n after:  %s", t, arch, shift, k, before[k], b0[k]))
				}
			}
			cur := first
			for k := 2; k <= hops+1; k++ {
				cur, _ = sim.Hop(cur)
				if !compare(b0, cur, "foreign-errno", k) {
					break
				}
			}
		})
	}
	c.Sample(sample(t, map[string]interface{}{"hops": hops, "fields": len(before), "domain": before["domain"], "hints": before["hints"], "source": before["source"]}))
}
