package mon

import (
	"fmt"
	"strings"
	"unicode/utf8"

	"verifharness/core"
	"verifharness/gen"
	"verifharness/model"
	"verifharness/obs"
	"verifharness/sim"
)

func init() {
	core.Register(&core.Prop{
		ID: "C03", Level: "exploration",
		Technique: "taint monitor: unique tokens on every unsafe input string, searched in every output the library declares PII-free, at the origin, after hops, at unknowing receivers",
		Rule: "per case one tree (pairwise sweep, then PRNG depth<=6); string class by case index: regular / hostile-valid-UTF-8 / hostile-with-invalid-UTF-8 (local stage only). " +
			"Stages: local, hop1, hop2, unknowing observer (all types forgotten), unknowing->knowing. Non-trivial = tree with >=1 unsafe token at depth>=2; distinct = kind-tree signature x string class.",
		Cases: func(t string) int { return 2*gen.SweepSize() + tierN(3000, 300000)(t) },
		Floor: tierN(500, 5000),
		Run:   runC03,
		Assumptions: []string{"taint map of the model: which constructor argument is an unsafe channel (format args not wrapped in Safe, foreign messages, hints, details, paths/addresses, tag values, overriding barrier messages, Mark reference messages)",
			"tokens are unique per case and never equal to a sentinel text"},
	})
}

type stage struct {
	name string
	err  error
}

// stagesOf produces the transferred variants of e.
func stagesOf(c *core.Ctx, t *gen.Node, e error, wire bool) []stage {
	out := []stage{{"local", e}}
	if !wire {
		return out
	}
	add := func(name string, f func() error) {
		var x error
		if p := core.Try(func() { x = f() }); p != nil || x == nil {
			c.Violate("panic/transfer-"+name, "transfer panicked or returned nil", fmt.Sprintf("%s\n%v", t, p))
			return
		}
		out = append(out, stage{name, x})
	}
	var h1 error
	add("hop1", func() error { h1, _ = sim.Hop(e); return h1 })
	if h1 != nil {
		add("hop2", func() error { x, _ := sim.Hop(h1); return x })
	}
	keys := sim.KeysOf(e)
	add("unknowing", func() error { return sim.Transfer(e, []sim.Proc{{Forget: keys}}) })
	add("unknowing-then-knowing", func() error { return sim.Transfer(e, []sim.Proc{{Forget: keys}, {}}) })
	// a process that knows some of the types and not others (e.g. the barrier but not what it hides)
	sub := subset(c.R, keys)
	add("partly-unknowing", func() error { return sim.Transfer(e, []sim.Proc{{Forget: sub}}) })
	// messages as other versions of the library would send them: barriers under their previous
	// type name with a plain-text message; every structured payload missing
	if b, n := sim.OldPeer(sim.EncBytes(e)); n > 0 {
		add("from-old-peer", func() error { return sim.DecBytes(b) })
	}
	if b, n := sim.DropPayloads(sim.EncBytes(e)); n > 0 {
		add("payloads-dropped", func() error { return sim.DecBytes(b) })
	}
	return out
}

func validUTF8(t *gen.Node) bool {
	ok := true
	gen.Walk(t, func(n *gen.Node, _ bool) {
		for _, s := range n.S {
			if !utf8.ValidString(s) {
				ok = false
			}
		}
	})
	return ok
}

// strClass picks the string class of a case.
func strClass(c *core.Ctx, g *gen.Gen) string {
	switch c.Case % 4 {
	case 0, 1:
		g.Str = gen.HostileUTF8
		return "hostile-utf8"
	case 2:
		g.Str = gen.Regular
		return "regular"
	}
	g.Str = gen.Hostile
	return "hostile"
}

func runC03(c *core.Ctx) {
	g := gen.New(c.R)
	class := strClass(c, g)
	c.Cover("string-class", class)
	var t *gen.Node
	if c.Case < 2*gen.SweepSize() {
		t = g.Sweep(c.Case / 2)
	} else {
		t = g.Tree(1 + c.R.Intn(6))
	}
	if c.Case%10 == 9 {
		// a third-party SafeFormatter leaf that prints nothing in short mode, at the end of the main chain
		n := t
		for len(n.Kids) == 1 && !model.IsMulti(n) && len(n.Kids[0].Kids) > 0 {
			n = n.Kids[0]
		}
		if len(n.Kids) == 1 && !model.IsMulti(n) {
			n.Kids[0] = g.Make("silentsafeleaf", nil, nil)
		}
	}
	coverTree(c, t)
	e, _, ok := safeBuild(c, t)
	if !ok {
		return
	}
	unsafe, safe := model.Taint(t)
	for _, s := range safe {
		// A declared-safe string inside a Mark reference enters the result
		// only through the reference's message (an unsafe channel) -- except
		// domain names, which are part of the reference's type marks
		// (family name + extension), themselves declared safe.
		if s.InMark && !isDomainName(s) {
			unsafe = append(unsafe, s)
		}
	}
	if len(unsafe) > 0 && t.Depth() >= 2 {
		c.Nontrivial(t.Sig() + "/" + class)
	}
	wire := validUTF8(t)
	for _, st := range stagesOf(c, t, e, wire) {
		c.Cover("stage", st.name)
		var outs obs.Rec
		if p := core.Try(func() { outs = obs.PIIFree(st.err) }); p != nil {
			c.Violate("panic/pii-free-outputs", "producing a PII-free output panicked", fmt.Sprintf("%s\nstage %s: %v", t, st.name, p))
			continue
		}
		for on, o := range outs {
			c.Count("outputs-searched", 1)
			for _, tk := range unsafe {
				c.Count("token-searches", 1)
				if strings.Contains(o, tk.Token) {
					i := strings.Index(o, tk.Token)
					lo, hi := i-120, i+60
					if lo < 0 {
						lo = 0
					}
					if hi > len(o) {
						hi = len(o)
					}
					where := ""
					if tk.Hidden {
						where = "/hidden"
					}
					c.Violate(fmt.Sprintf("leak/%s/%s.%d%s", on, tk.Kind, tk.Idx, where), "an unsafe string reached an output declared PII-free",
						fmt.Sprintf("%s\nstage %s, output %s, token %s (from %s arg %d)\n...%q...", t, st.name, on, tk.Token, tk.Kind, tk.Idx, o[lo:hi]))
					break
				}
			}
		}
	}
	c.Sample(sample(t, map[string]interface{}{"string_class": class, "unsafe_tokens": len(unsafe), "crossed_wire": wire}))
}

func isDomainName(t model.Tok) bool {
	return t.Idx == 0 && (t.Kind == "domain" || t.Kind == "domainraw" || t.Kind == "handleddomain" || t.Kind == "handleddommsg")
}
