package mon

import (
	goErr "errors"
	"fmt"
	"reflect"
	"regexp"
	"strings"

	"github.com/cockroachdb/errors"
	"github.com/cockroachdb/errors/errbase"

	"verifharness/core"
	"verifharness/gen"
	"verifharness/model"
	"verifharness/obs"
	"verifharness/sim"
)

func init() {
	core.Register(&core.Prop{
		ID: "C13", Level: "exploration",
		Technique: "reference-model + differential monitors on trees with forced (nested) multi-cause nodes: Is/IsAny = self-match or disjunction over branches; As = first match in branch order (object identity); Unwrap family treats them as leaves; Join nil handling; branch count/order/content across knowing and unknowing hops; one %+v entry per layer",
		Rule: "per case a tree with >=1 multi-cause node (Join, stdlib Join, fmt.Errorf with two %w, registered and unregistered user multi-cause types) at random depth, nested, with branches that are wrapped chains, under wrappers and as barrier payload (pairwise sweep first). " +
			"Stages: local, hop1, hop2, unknowing receiver (arity/order only), unknowing-then-knowing. Non-trivial = >=2 multi-cause nodes or a branch of depth>=2; distinct = kind-tree signature.",
		Cases: func(t string) int { return gen.SweepSize() + tierN(2000, 60000)(t) },
		Floor: tierN(500, 5000),
		Run:   runC13,
		Assumptions: []string{"marks from the model's family table; the origin's observation is the oracle across hops"},
	})
}

func multiProfile(c *core.Ctx, g *gen.Gen) *gen.Node {
	g.WMulti, g.WWrap, g.WLeaf = 8, 10, 2
	r := c.R
	var kids []*gen.Node
	for i, n := 0, 2+r.Intn(2); i < n; i++ {
		kids = append(kids, g.Tree(1+r.Intn(4)))
	}
	k := gen.MultiKinds[r.Intn(len(gen.MultiKinds))]
	if k == "goerrorfmulti" {
		kids = kids[:2]
	} else if r.Intn(8) == 0 {
		// the SAME error twice, in adjacent positions (the builder yields one object for one descriptor node)
		kids = append([]*gen.Node{kids[0]}, kids...)
	}
	n := g.Make(k, kids, nil)
	for i, d := 0, r.Intn(4); i < d; i++ {
		nl := gen.NonLeafKinds()
		n = g.Around(nl[r.Intn(len(nl))], n)
	}
	return n
}

var entryRe = regexp.MustCompile(`(?m)^(?:(?:  )*└─ )?Wraps: \((\d+)\)|^\((1)\)`)

func runC13(c *core.Ctx) {
	g := gen.New(c.R)
	if c.Case%50 == 0 {
		opErrArrowProbeC13(c, g)
	}
	var t *gen.Node
	if c.Case < gen.SweepSize() {
		t = g.Sweep(c.Case)
	} else {
		t = multiProfile(c, g)
	}
	coverTree(c, t)
	nMulti, deepBranch := 0, false
	var walkVis func(n *gen.Node)
	walkVis = func(n *gen.Node) {
		if model.IsMulti(n) {
			nMulti++
			for _, k := range n.Kids {
				if k.Depth() >= 2 {
					deepBranch = true
				}
			}
		}
		for _, k := range n.Kids {
			walkVis(k)
		}
	}
	walkVis(t)
	if nMulti == 0 {
		joinNilChecks(c)
		return
	}
	if nMulti >= 2 || deepBranch {
		c.Nontrivial(t.Sig())
	}
	e, m, ok := safeBuild(c, t)
	if !ok {
		return
	}
	ix, prob := index(t, m)
	if prob != "" {
		c.Violate("model/chain", "live chain shorter than the model's layer list", fmt.Sprintf("%s\n%s", t, prob))
		return
	}
	vis := visibleLive(ix)
	if !checkModelShape(c, t, e, "model", false) {
		return
	}
	// reference pool
	var refs []Ref
	for _, l := range ix {
		refs = append(refs, Ref{Live: l, Origin: "self"})
	}
	addTree := func(n *gen.Node, origin string) {
		e2, m2 := gen.BuildMap(n)
		ix2, _ := index(n, m2)
		_ = e2
		for _, l := range ix2 {
			refs = append(refs, Ref{Live: l, Origin: origin})
		}
	}
	for i := range gen.Sentinels {
		addTree(sentinelNode(i), "sentinel")
	}
	core.Try(func() { addTree(g.Tree(1+c.R.Intn(3)), "other") })
	ps, ls := perturb(g, t)
	for i, p := range ps {
		p, l := p, ls[i]
		core.Try(func() { addTree(p, l) })
	}

	// per multi-cause layer: tree semantics
	pos := map[error]int{}
	for i, l := range vis {
		if comparable(l.Err) {
			if _, dup := pos[l.Err]; !dup {
				pos[l.Err] = i
			}
		}
	}
	for i, l := range vis {
		branches := errbase.UnwrapMulti(l.Err)
		if len(branches) == 0 {
			continue
		}
		c.Count("multi-cause-layers", 1)
		c.Cover("multi-type", famShort(l.Fam))
		if u := errors.UnwrapOnce(l.Err); u != nil {
			c.Violate("unwrap/UnwrapOnce", "UnwrapOnce of a multi-cause error is not nil", fmt.Sprintf("%s\n%T", t, l.Err))
		}
		if u := errors.Unwrap(l.Err); u != nil {
			c.Violate("unwrap/Unwrap", "Unwrap of a multi-cause error is not nil", fmt.Sprintf("%s\n%T", t, l.Err))
		}
		if u := errors.Cause(l.Err); u != l.Err {
			c.Violate("unwrap/Cause", "Cause of a multi-cause error is not itself", fmt.Sprintf("%s\n%T", t, l.Err))
		}
		if u := errors.UnwrapAll(l.Err); u != l.Err {
			c.Violate("unwrap/UnwrapAll", "UnwrapAll does not stop at a multi-cause error", fmt.Sprintf("%s\n%T", t, l.Err))
		}
		if want := len(l.Node.Kids); len(branches) != want {
			c.Violate("branch-count/local", "number of branches differs from the constructor's non-nil arguments", fmt.Sprintf("%s\n%d vs %d", t, len(branches), want))
		}
		var anyGot, anyWant bool
		var pool []error
		for _, r := range refs {
			self := refIs([]Live{vis[i]}, r.Err, r.Mark, true)
			wantIs := self
			for _, b := range branches {
				if ok, _ := safeIs(b, r.Err); ok {
					wantIs = true
				}
			}
			got, p := safeIs(l.Err, r.Err)
			c.Count("is-pairs", 1)
			if p != nil || got != wantIs {
				c.Violate(fmt.Sprintf("is-tree/got=%v/%s", got, famShort(l.Fam)), "Is on a multi-cause error is not (self-match or some branch matches)",
					fmt.Sprintf("%s\nmulti layer %T, ref (%s) %T %q (panic %v)", t, l.Err, r.Origin, r.Err, r.Err, p))
			}
			// IsAny with this one reference (plus one that never matches) decides like Is: whatever the
			// route of the match -- identity, an Is method, or mark equivalence INSIDE a branch
			if p == nil {
				var one bool
				if p1 := core.Try(func() { one = errors.IsAny(l.Err, c18never, r.Err) }); p1 != nil || one != got {
					c.Violate(fmt.Sprintf("isany-single/got=%v/%s", one, r.Origin), "IsAny(e, r) differs from Is(e, r) on a multi-cause error",
						fmt.Sprintf("%s\nmulti layer %T, ref (%s) %T %q (panic %v)", t, l.Err, r.Origin, r.Err, r.Err, p1))
				}
			}
			anyWant = anyWant || wantIs
			pool = append(pool, r.Err)
		}
		core.Try(func() { anyGot = errors.IsAny(l.Err, pool...) })
		if anyGot != anyWant {
			c.Violate("isany-tree", "IsAny on a multi-cause error differs from the disjunction", t.String())
		}
	}
	// As: first match in pre-order (branch order), object identity
	for _, pr := range asProbes {
		got, val := pr.as(e)
		var wantObj error
		for _, l := range vis {
			if fmt.Sprintf("%T", l.Err) == pr.goType {
				wantObj = l.Err
				break
			}
		}
		c.Count("as-probes", 1)
		if got != (wantObj != nil) {
			c.Violate("as-tree/"+pr.goType, "As succeeds iff some visible layer (through branches) has the target type", fmt.Sprintf("%s\ngot %v", t, got))
		} else if got && val != nil && comparable(val) && comparable(wantObj) && val != wantObj {
			c.Violate("as-order/"+pr.goType, "As did not assign the first match in branch order", fmt.Sprintf("%s\ngot %p want %p", t, val, wantObj))
		}
	}
	{
		var tgt *gen.AsTarget
		got := errors.As(e, &tgt)
		want := ""
		for _, l := range vis {
			if x, ok := l.Err.(*gen.AsLeaf); ok {
				want = x.Msg
				break
			}
			if x, ok := l.Err.(*gen.AsWrap); ok {
				want = "wrap:" + x.Msg
				break
			}
		}
		if got != (want != "") || got && tgt.From != want {
			c.Violate("as-order/custom-As-method", "As through a type's own As method does not use the first match in branch order", fmt.Sprintf("%s\ngot %v want from %q", t, got, want))
		}
	}
	// %+v: one entry per layer, per-branch tokens present
	var pv string
	if p := core.Try(func() { pv = fmt.Sprintf("%+v", errors.Formattable(e)) }); p != nil {
		c.Violate("panic/%+v", "%+v panicked", fmt.Sprintf("%s\n%v", t, p))
	} else {
		if n, w := len(entryRe.FindAllString(pv, -1)), len(vis); n < w {
			c.Violate("plusv-entries", "%+v has fewer entries than visible layers (a branch is missing)", fmt.Sprintf("%s\n%d entries, %d layers\n%s", t, n, w, trimS(pv, 2000)))
		}
		var rec func(n *gen.Node)
		rec = func(n *gen.Node) {
			for _, s := range n.S {
				if tk := gen.TokenOf(s); tk != "" && !strings.Contains(pv, tk) {
					// strings of a visible node must show up unless the node's message is elided by design
					if strings.Contains(model.Text(t), tk) {
						c.Violate("plusv-missing-branch-token", "a visible branch's message is missing from %+v", fmt.Sprintf("%s\ntoken %s of %s", t, tk, n.Kind))
					}
				}
			}
			for _, k := range n.Kids {
				rec(k)
			}
		}
		rec(t)
	}
	// transfer
	s0 := obs.ShapeOf(e)
	var ann0 []obs.Rec
	for _, n := range obs.Nodes(e) {
		ann0 = append(ann0, obs.Annotations(n))
	}
	keys := sim.KeysOf(e)
	check := func(name string, h []sim.Proc, textsToo bool) {
		var d error
		if p := core.Try(func() { d = sim.Transfer(e, h) }); p != nil || d == nil {
			c.Violate("panic/transfer-"+name, "transfer panicked", fmt.Sprintf("%s\n%v", t, p))
			return
		}
		c.Cover("stage", name)
		// %+v of the decoded error shows every branch: printed directly when the outermost
		// layer is a library type (the opaque stand-ins included), through Formattable otherwise
		if p := core.Try(func() {
			var subj interface{} = errors.Formattable(d)
			if tn := fmt.Sprintf("%T", d); strings.HasPrefix(tn, "*errbase.opaque") || model.Display(t)[0].IsLib() {
				subj = d
			}
			pv := fmt.Sprintf("%+v", subj)
			c.Count("decoded-verbose-renderings", 1)
			if n, w := len(entryRe.FindAllString(pv, -1)), len(obs.Nodes(d)); n < w {
				c.Violate("plusv-entries@"+name, "%+v of the decoded error has fewer entries than visible layers (a branch is missing)", fmt.Sprintf("%s\n%d entries, %d layers\n%s", t, n, w, trimS(pv, 2000)))
			}
		}); p != nil {
			c.Violate("panic/%+v@"+name, "%+v of the decoded error panicked", fmt.Sprintf("%s\n%v", t, p))
		}
		sd := obs.ShapeOf(d)
		if !textsToo {
			eraseTexts(&sd)
			s := s0
			s = cloneShape(s)
			eraseTexts(&s)
			if dd, owner := obs.Diff(s, sd); dd != "" {
				c.Violate("branches@"+name+"/"+famShort(owner), "branch count or order changed in transfer", fmt.Sprintf("%s\n%s", t, dd))
			}
			return
		}
		if dd, owner := obs.Diff(s0, sd); dd != "" {
			c.Violate("branches@"+name+"/"+famShort(owner), "branch count, order or per-branch text changed in transfer", fmt.Sprintf("%s\n%s", t, dd))
			return
		}
		for i, n := range obs.Nodes(d) {
			if i < len(ann0) {
				if diff := obs.DiffRec(ann0[i], obs.Annotations(n), func(k string) bool { return k == "source" && false }); len(diff) > 0 {
					c.Violate("branch-annotations@"+name+"/"+diff[0], "a branch's annotations changed in transfer",
						fmt.Sprintf("%s\nnode %d field %s: %q vs %q", t, i, diff[0], ann0[i][diff[0]], obs.Annotations(n)[diff[0]]))
					break
				}
			}
		}
		c.Count("transfers-compared", 1)
	}
	check("hop1", []sim.Proc{{}}, true)
	check("hop2", []sim.Proc{{}, {}}, true)
	check("unknowing-receiver", []sim.Proc{{Forget: keys}}, false)
	check("unknowing-then-knowing", []sim.Proc{{Forget: keys, NoProto: c.Case%2 == 1}, {}}, true)
	c.Sample(sample(t, map[string]interface{}{"multi_cause_nodes": nMulti, "visible_layers": len(vis), "refs": len(refs)}))
	_ = reflect.TypeOf
}

func eraseTexts(s *obs.Shape) {
	s.Text = ""
	for i := range s.Kids {
		eraseTexts(&s.Kids[i])
	}
}

func cloneShape(s obs.Shape) obs.Shape {
	o := s
	o.Kids = nil
	for _, k := range s.Kids {
		o.Kids = append(o.Kids, cloneShape(k))
	}
	return o
}

// joinNilChecks: Join drops nil arguments, returns nil when nothing remains.
func joinNilChecks(c *core.Ctx) {
	a, b := goErr.New("a"), goErr.New("b")
	if errors.Join() != nil || errors.Join(nil) != nil || errors.Join(nil, nil, nil) != nil {
		c.Violate("join-nil/all-nil", "Join of only nils is not nil", "")
	}
	j := errors.Join(nil, a, nil, b, nil)
	if j == nil {
		c.Violate("join-nil/dropped-all", "Join(nil,a,nil,b,nil) is nil", "")
		return
	}
	var inner error = j
	for errors.UnwrapOnce(inner) != nil {
		inner = errors.UnwrapOnce(inner)
	}
	br := errbase.UnwrapMulti(inner)
	if len(br) != 2 || br[0] != a || br[1] != b {
		c.Violate("join-nil/kept-nil-or-reordered", "Join does not drop nil arguments or reorders", fmt.Sprintf("%d branches", len(br)))
	}
	if j.Error() != "a\nb" {
		c.Violate("join-text", "Join's Error() is not the branch messages joined by newlines", fmt.Sprintf("%q", j.Error()))
	}
	c.Count("join-nil-checks", 1)
}

// opErrArrowProbeC13: see opErrBothTrees (known finding): Join's Error() renders its branches
// with the library's formatter, which prints such an OpError with a spaced arrow.
func opErrArrowProbeC13(c *core.Ctx, g *gen.Gen) {
	leaf := g.Make("goerr", nil, nil)
	ob := g.Make("operrboth", []*gen.Node{g.Make("goerr", nil, nil)}, nil)
	for _, kind := range []string{"join", "joinbare"} {
		t := g.Make(kind, []*gen.Node{ob, leaf}, nil)
		e, _, ok := safeBuild(c, t)
		if !ok {
			continue
		}
		if p := core.Try(func() {
			var parts []string
			for _, b := range errbase.UnwrapMulti(errors.UnwrapAll(e)) {
				parts = append(parts, b.Error())
			}
			c.Count("operrboth-joins", 1)
			if got, want := e.Error(), strings.Join(parts, "\n"); got != want {
				c.Violate("join-text/"+arrowClass(got, want), "Join's Error() is not the branch messages joined by newlines", fmt.Sprintf("%s\n%q vs %q", t, got, want))
			}
		}); p != nil {
			c.Violate("panic/operrboth", "panicked", fmt.Sprintf("%s\n%v", t, p))
		}
	}
}
