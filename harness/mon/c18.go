package mon

import (
	goErr "errors"
	"fmt"
	"sort"
	"strings"
	"sync"
	"time"

	"github.com/cockroachdb/errors"
	"github.com/cockroachdb/redact"

	"verifharness/core"
	"verifharness/gen"
	"verifharness/obs"
	"verifharness/sim"
)

func init() {
	core.Register(&core.Prop{
		ID: "C18", Level: "exploration", Race: true,
		Technique: "Go race detector (harness and library built with -race; verdict = WARNING: DATA RACE blocks counted in the GORACE log files) + determinism monitor: every concurrent call's result compared with the result of the same call executed alone",
		Rule: "per case one shared error (PRNG tree depth<=6; every second one decoded from the wire first); reference results are computed sequentially on a twin built from the same descriptor (the shared value itself stays cold: nothing touches it before the goroutines start), then G goroutines (quick 16, thorough 48) are released together and each runs R rounds (3 / 6) of 14 observer operations in its own PRNG order, with no synchronisation inside the measured region; then five same-operation storms per case (PRNG-chosen operations): all goroutines released together run ONE operation 4 times back to back, so that they sit in the same function at the same time. " +
			"Non-trivial = case in which operations of different goroutines on the same error overlapped in time (measured from per-operation timestamps); distinct = kind-tree signature x local/decoded.",
		Cases: tierN(320, 3000),
		Floor: tierN(100, 1000),
		Run:   runC18,
		Assumptions: []string{"the race detector reports unordered conflicting accesses on the executions produced; it says nothing about code the workload does not reach",
			"monitor state is goroutine-local and merged after Wait(): no atomics or locks in the measured region that could add happens-before edges"},
	})
}

type c18op struct {
	name string
	f    func(e error, refs []error, wire []byte) string
}

var c18ops = []c18op{
	{"Error", func(e error, _ []error, _ []byte) string { return e.Error() }},
	{"fmt%v", func(e error, _ []error, _ []byte) string { return fmt.Sprintf("%v", e) }},
	{"fmt%+v", func(e error, _ []error, _ []byte) string { return fmt.Sprintf("%+v", errors.Formattable(e)) }},
	{"redact%+v", func(e error, _ []error, _ []byte) string { return string(redact.Sprintf("%+v", e)) }},
	{"redact%v.Redact", func(e error, _ []error, _ []byte) string { return string(redact.Sprint(e).Redact()) }},
	{"EncodeError", func(e error, _ []error, _ []byte) string { return string(sim.EncBytes(e)) }},
	{"DecodeError", func(_ error, _ []error, w []byte) string {
		if w == nil {
			return "" // cold-process case: nothing has been encoded yet
		}
		return fmt.Sprintf("%+v", sim.DecBytes(w))
	}},
	{"Is/IsAny", func(e error, refs []error, _ []byte) string {
		var b strings.Builder
		for _, r := range refs {
			fmt.Fprint(&b, errors.Is(e, r))
		}
		fmt.Fprint(&b, errors.IsAny(e, refs...))
		return b.String()
	}},
	// IsAny against references that do not match at the top: the search walks the whole chain
	{"IsAny(no match at the top)", func(e error, refs []error, _ []byte) string {
		var b strings.Builder
		n := len(gen.Sentinels)
		fmt.Fprint(&b, errors.IsAny(e, refs[:n]...))
		for _, r := range refs[n:] {
			fmt.Fprint(&b, errors.IsAny(e, c18never, r, c18never))
		}
		return b.String()
	}},
	{"As", func(e error, _ []error, _ []byte) string {
		var b strings.Builder
		for _, pr := range asProbes {
			ok, _ := pr.as(e)
			fmt.Fprint(&b, ok)
		}
		return b.String()
	}},
	{"GetAllSafeDetails", func(e error, _ []error, _ []byte) string { return fmt.Sprint(errors.GetAllSafeDetails(e)) }},
	{"annotations", func(e error, _ []error, _ []byte) string { return fmt.Sprint(obs.Annotations(e)) }},
	{"per-node(safe details, stacks)", func(e error, _ []error, _ []byte) string { return fmt.Sprint(obs.PerNode(e)) }},
	{"BuildSentryReport", func(e error, _ []error, _ []byte) string {
		ev, ex := errors.BuildSentryReport(e)
		var b strings.Builder
		b.WriteString(ev.Message)
		for _, x := range ev.Exception {
			fmt.Fprintf(&b, "|%s|%s|%s", x.Type, x.Value, x.Module)
			if x.Stacktrace != nil {
				fmt.Fprintf(&b, "|%d", len(x.Stacktrace.Frames))
			}
		}
		fmt.Fprint(&b, ex["error types"])
		return b.String()
	}},
	{"hop.Error", func(e error, _ []error, _ []byte) string { x, _ := sim.Hop(e); return x.Error() }},
}

var c18never = goErr.New("never matches")

// c18processCold: nothing in this process has used the library for reading yet.
var c18processCold = true

type interval struct {
	g        int
	from, to int64
}

func runC18(c *core.Ctx) {
	g := gen.New(c.R)
	t := g.Tree(1 + c.R.Intn(6))
	// up to three annotation wrappers on top: most per-layer state lives in those
	for i, d := 0, c.R.Intn(4); i < d; i++ {
		t = g.Around(annotKinds[c.R.Intn(len(annotKinds))], t)
	}
	coverTree(c, t)
	// The shared value stays COLD: nothing observes it before the
	// goroutines are released (a lazily filled cache inside an error object
	// would otherwise be warmed by the reference computation and the race
	// hidden). The "executed alone" reference is computed on a twin built
	// from the same descriptor, and again on the shared value afterwards.
	// (both built from the same call site, so that the captured stacks are identical)
	built := make([]error, 2+len(c18ops))
	maps := make([]gen.Built, 2+len(c18ops))
	for i := range built {
		var ok bool
		if built[i], maps[i], ok = safeBuild(c, t); !ok {
			return
		}
	}
	twin, m, e := built[0], maps[0], built[1]
	// The first case a process handles finds the LIBRARY's process-wide state cold as well (tables
	// filled on first use, registries, pools): there the goroutines run before anything else has
	// called into the library for reading, and the "executed alone" reference is computed afterwards.
	cold := c18processCold
	c18processCold = false
	mode := "local"
	if cold {
		mode = "local(cold process)"
	} else if c.Case%2 == 1 {
		mode = "decoded"
		if p := core.Try(func() { twin, _ = sim.Hop(twin); e = sim.DecBytes(sim.EncBytes(twin)) }); p != nil {
			return
		}
	}
	var refs []error
	for _, s := range gen.Sentinels {
		refs = append(refs, s)
	}
	gen.Walk(t, func(n *gen.Node, _ bool) { refs = append(refs, m[n]) })
	var wire []byte
	want := make([]string, len(c18ops))
	reference := func() bool {
		if p := core.Try(func() {
			if !cold {
				wire = sim.EncBytes(twin)
			}
			for i, op := range c18ops {
				want[i] = op.f(twin, refs, wire)
			}
		}); p != nil {
			c.Violate("panic/sequential", "an operation panicked when executed alone", fmt.Sprintf("%s\n%v", t, p))
			return false
		}
		return true
	}
	// every operation as the FIRST one on a fresh, identical error: a read-only call must not
	// depend on (or leave behind) state from other read-only calls
	firstCalls := func() {
		for i, op := range c18ops {
			v := built[2+i]
			if p := core.Try(func() {
				if mode == "decoded" {
					v = sim.DecBytes(sim.EncBytes(twin))
				}
				c.Count("first-call-on-fresh-value-comparisons", 1)
				if got := op.f(v, refs, wire); got != want[i] {
					c.Violate("order-dependent/"+op.name, "a call executed first on a fresh identical error returns another result than after other read-only calls", fmt.Sprintf("%s (%s)", t, mode))
				}
			}); p != nil {
				c.Violate("panic/first-call", "an operation panicked when executed first on a fresh value", fmt.Sprintf("%s\n%v", t, p))
			}
		}
	}
	if !cold {
		if !reference() {
			return
		}
		firstCalls()
	}
	G, R := 16, 3
	if c.Tier == "thorough" {
		G, R = 48, 6
	}
	type output struct {
		oi  int
		got string
	}
	type result struct {
		outs  []output // cold process: compared after the reference has been computed
		mism  []string
		ivs   []interval
		panic interface{}
	}
	res := make([]result, G)
	seeds := make([]int64, G)
	for i := range seeds {
		seeds[i] = c.R.Int63()
	}
	t0 := time.Now()
	if cold {
		// one phase per operation: all goroutines are released together to make the process's FIRST
		// call of that operation at the same time (state that the library fills on first use is then
		// written and read concurrently); phases are separated by a barrier
		for oi := range c18ops {
			release := make(chan struct{})
			var phase sync.WaitGroup
			for gi := 0; gi < G; gi++ {
				phase.Add(1)
				go func(gi int) {
					defer phase.Done()
					my := &res[gi]
					<-release
					if p := core.Try(func() {
						a := time.Since(t0).Nanoseconds()
						got := c18ops[oi].f(e, refs, wire)
						my.ivs = append(my.ivs, interval{gi, a, time.Since(t0).Nanoseconds()})
						my.outs = append(my.outs, output{oi, got})
					}); p != nil && my.panic == nil {
						my.panic = p
					}
				}(gi)
			}
			close(release)
			phase.Wait()
		}
	}
	start := make(chan struct{})
	var wg sync.WaitGroup
	for gi := 0; gi < G; gi++ {
		wg.Add(1)
		go func(gi int) {
			defer wg.Done()
			r := core.CaseRand(seeds[gi], "C18g", gi)
			my := &res[gi]
			<-start
			p := core.Try(func() {
				for round := 0; round < R; round++ {
					for _, oi := range r.Perm(len(c18ops)) {
						a := time.Since(t0).Nanoseconds()
						got := c18ops[oi].f(e, refs, wire)
						b := time.Since(t0).Nanoseconds()
						my.ivs = append(my.ivs, interval{gi, a, b})
						if cold {
							my.outs = append(my.outs, output{oi, got})
						} else if got != want[oi] {
							my.mism = append(my.mism, c18ops[oi].name)
						}
					}
				}
			})
			if my.panic == nil {
				my.panic = p
			}
		}(gi)
	}
	close(start)
	wg.Wait()
	if !cold {
		// same-operation storms: all goroutines released together to run the SAME operation back to
		// back. In the mixed phase two goroutines are rarely inside the same few instructions of one
		// function; a lock-free memo whose key and value are published separately (every access atomic,
		// nothing for the race detector to report) only shows when they are.
		const S = 4
		for _, oi := range c.R.Perm(len(c18ops))[:5] {
			release := make(chan struct{})
			var phase sync.WaitGroup
			for gi := 0; gi < G; gi++ {
				phase.Add(1)
				go func(gi int) {
					defer phase.Done()
					my := &res[gi]
					<-release
					if p := core.Try(func() {
						for k := 0; k < S; k++ {
							a := time.Since(t0).Nanoseconds()
							got := c18ops[oi].f(e, refs, wire)
							my.ivs = append(my.ivs, interval{gi, a, time.Since(t0).Nanoseconds()})
							if got != want[oi] {
								my.mism = append(my.mism, c18ops[oi].name)
							}
						}
					}); p != nil && my.panic == nil {
						my.panic = p
					}
				}(gi)
			}
			close(release)
			phase.Wait()
			c.Count("same-operation-storms", 1)
		}
	}
	if cold {
		c.Count("cold-process-cases", 1)
		if !reference() {
			return
		}
		for gi := range res {
			for _, o := range res[gi].outs {
				if o.got != want[o.oi] {
					res[gi].mism = append(res[gi].mism, c18ops[o.oi].name)
				}
			}
		}
		firstCalls()
	}
	// merge (after Wait: no synchronisation inside the measured region)
	var all []interval
	for gi := range res {
		if res[gi].panic != nil {
			c.Violate("panic/concurrent", "an operation panicked when executed concurrently", fmt.Sprintf("%s\n%v", t, res[gi].panic))
		}
		for _, name := range res[gi].mism {
			c.Violate("nondeterministic/"+name, "a concurrent call returned another result than the same call executed alone", fmt.Sprintf("%s (%s)", t, mode))
		}
		all = append(all, res[gi].ivs...)
		c.Count("concurrent-operations", len(res[gi].ivs))
	}
	// the same calls executed alone on the shared value afterwards
	if p := core.Try(func() {
		for i, op := range c18ops {
			if got := op.f(e, refs, wire); got != want[i] {
				c.Violate("nondeterministic-after/"+op.name, "a call executed alone after the concurrent phase returns another result than on a fresh identical error", fmt.Sprintf("%s (%s)", t, mode))
			}
		}
	}); p != nil {
		c.Violate("panic/sequential-after", "an operation panicked when executed alone after the concurrent phase", fmt.Sprintf("%s\n%v", t, p))
	}
	// overlap evidence
	sort.Slice(all, func(i, j int) bool { return all[i].from < all[j].from })
	if len(all) > 400 {
		all = all[:400]
	}
	overlaps := 0
	for i := range all {
		for j := i + 1; j < len(all) && all[j].from < all[i].to; j++ {
			if all[j].g != all[i].g {
				overlaps++
			}
		}
	}
	c.Count("overlapping-operation-pairs(sampled)", overlaps)
	if overlaps > 0 {
		c.Nontrivial(t.Sig() + "/" + mode)
	}
	c.Cover("mode", mode)
	if c.Case%40 == 0 {
		c.Sample(sample(t, map[string]interface{}{"mode": mode, "goroutines": G, "rounds": R, "ops_per_goroutine": R * len(c18ops), "overlapping_pairs_in_first_400_ops": overlaps}))
	}
}
