package mon

import (
	"bytes"
	"fmt"

	"verifharness/core"
	"verifharness/gen"
	"verifharness/model"
	"verifharness/obs"
	"verifharness/sim"
)

func init() {
	core.Register(&core.Prop{
		ID: "C01", Level: "exploration",
		Technique: "differential monitor over recorded hops: visible tree shape + per-node Error() before vs after k encode/marshal/unmarshal/decode hops; wire-drift monitor on the bytes",
		Rule: "cases 0..SweepSize-1: pairwise sweep outer(inner(leaf)); then PRNG trees depth<=7, regular strings; each case is hopped k times (quick 4, thorough 8) through knowing processes. " +
			"Non-trivial = depth>=3 or multi-cause; distinct = distinct kind-tree signature.",
		Cases: func(t string) int { return gen.SweepSize() + tierN(3000, 300000)(t) },
		Floor: tierN(500, 5000),
		Run:   runC01,
		Assumptions: []string{"the origin's own observation is the oracle (tied to the text model by C10)", "gogo/protobuf Marshal/Unmarshal is the wire"},
	})
}

// hasHiding: the tree has a barrier or secondary layer somewhere (their
// safe details embed a rendering of the hidden error, re-rendered once
// after the first decode).
func hasHiding(t *gen.Node) bool {
	found := false
	gen.Walk(t, func(n *gen.Node, _ bool) {
		for _, l := range model.OwnLayers(n) {
			if l.Barrier || l.Secondary {
				found = true
			}
		}
	})
	return found
}

func runC01(c *core.Ctx) {
	g := gen.New(c.R)
	if c.Case%50 == 0 {
		opErrArrowProbeC01(c, g)
	}
	if c.Case%8 == 5 {
		// strings from a tiny pool: adjacent layers with EQUAL texts (the comparison is differential, no tokens needed)
		g.Str = gen.Pool([]string{"h1", "h2", "h1", "k: v", "d", "h1"})
	}
	if c.Case%8 == 7 {
		// regular strings with a byte sequence that is not valid UTF-8 (the comparison is differential, no tokens needed)
		g.Str = gen.RegularBin
	}
	t := caseTree(c, g, 7)
	if c.Case%8 == 5 && c.Case >= gen.SweepSize() {
		// ... in a chain of 2..9 annotation wrappers over a small tree (as in C19)
		t = g.Tree(1 + c.R.Intn(3))
		for i, d := 0, 2+c.R.Intn(8); i < d; i++ {
			t = g.Around(annotKinds[c.R.Intn(len(annotKinds))], t)
		}
		// the same annotation applied twice in a row (same kind, same arguments)
		if gen.Specs[t.Kind].Class == gen.Wrap && c.R.Intn(2) == 0 {
			t = &gen.Node{Kind: t.Kind, S: append([]string(nil), t.S...), N: append([]int(nil), t.N...), Kids: []*gen.Node{t}}
		}
	}
	coverTree(c, t)
	if t.Depth() >= 3 || t.HasKind(gen.MultiKinds...) {
		c.Nontrivial(t.Sig())
	}
	e, _, ok := safeBuild(c, t)
	if !ok {
		return
	}
	hops := 4
	if c.Tier == "thorough" {
		hops = 8
	}
	var s0 obs.Shape
	var w0 []byte
	if p := core.Try(func() { s0 = obs.ShapeOf(e); w0 = sim.EncBytes(e) }); p != nil {
		c.Violate("panic/origin", "observing or encoding the origin error panicked", fmt.Sprintf("%s\n%v", t, p))
		return
	}
	c.Sample(sample(t, map[string]interface{}{"hops": hops, "wire_bytes": len(w0), "Error()": s0.Text}))
	cur := e
	hiding := hasHiding(t)
	for k := 1; k <= hops; k++ {
		var recv, wk []byte
		var sk obs.Shape
		if p := core.Try(func() {
			cur, recv = sim.Hop(cur)
			sk = obs.ShapeOf(cur)
			wk = sim.EncBytes(cur)
		}); p != nil {
			c.Violate("panic/hop", "hop panicked", fmt.Sprintf("%s\nhop %d: %v", t, k, p))
			return
		}
		c.Count("hops", 1)
		c.Cover("hop-count", fmt.Sprint(k))
		if cur == nil {
			c.Violate("nil-after-hop", "decoded error is nil", t.String())
			return
		}
		if d, owner := obs.Diff(s0, sk); d != "" {
			c.Violate("tree/"+famShort(owner), "visible tree or a node's Error() changed across a hop between knowing processes",
				fmt.Sprintf("%s\nhop %d: %s", t, k, d))
			return
		}
		// recv is what process k received; wk is what it would forward.
		if !bytes.Equal(recv, wk) {
			if k == 1 && hiding {
				c.Count("w1-differs-from-w0-with-hidden-rendering(exempt)", 1)
			} else {
				e1, _ := sim.Unmarshal(recv)
				e2, _ := sim.Unmarshal(wk)
				c.Violate("drift/"+driftOwner(&e1, &e2), "re-encoding after a hop does not reproduce the received wire message",
					fmt.Sprintf("%s\nhop %d: received %d bytes, re-encoded %d bytes\nreceived: %s\nforwarded: %s", t, k, len(recv), len(wk), e1.String(), e2.String()))
				return
			}
		}
	}
}

// opErrArrowProbeC01: see opErrBothTrees (known finding): a library layer above such an
// OpError computes its Error() with the spaced arrow; after a hop the OpError is an opaque
// wrapper whose prefix was cut from the standard library's text.
func opErrArrowProbeC01(c *core.Ctx, g *gen.Gen) {
	for _, t := range opErrBothTrees(g) {
		e, _, ok := safeBuild(c, t)
		if !ok {
			continue
		}
		if p := core.Try(func() {
			s0 := obs.ShapeOf(e)
			cur := e
			for k := 1; k <= 2; k++ {
				cur, _ = sim.Hop(cur)
				c.Count("operrboth-hops", 1)
				if d, _, a, b := obs.Diff4(s0, obs.ShapeOf(cur)); d != "" {
					c.Violate("tree/"+arrowClass(a, b), "visible tree or a node's Error() changed across a hop between knowing processes", fmt.Sprintf("%s\nhop %d: %s", t, k, d))
					break
				}
			}
		}); p != nil {
			c.Violate("panic/operrboth", "hop panicked", fmt.Sprintf("%s\n%v", t, p))
		}
	}
}
