package mon

import (
	goErr "errors"
	"fmt"
	"reflect"
	"strings"

	"github.com/cockroachdb/errors"
	pkgErr "github.com/pkg/errors"

	"verifharness/core"
	"verifharness/obs"
	"verifharness/sim"
	"verifharness/gen"
)

func init() {
	core.Register(&core.Prop{
		ID: "C14", Level: "exploration",
		Technique: "differential monitor against the standard library and pkg/errors: errors.Is / As / Unwrap / Cause on the same live objects, implication everywhere and equality where the foreign walker can walk",
		Rule: "per case one tree mixing library, stdlib, pkg/errors, OS/net and user types (pairwise sweep, then PRNG depth<=6); reference pool = sentinels, errnos, all visible+hidden layers; 19 As target types (pointer, value, interface). " +
			"Non-trivial = case with >=1 joint positive and >=1 joint negative answer; distinct = kind-tree signature.",
		Cases: func(t string) int { return gen.SweepSize() + tierN(3000, 300000)(t) },
		Floor: tierN(500, 5000),
		Run:   runC14,
		Assumptions: []string{"Go's errors package and github.com/pkg/errors v0.9.1 are the oracles", "equality is claimed where the foreign walker can walk (no Cause-only wrapper on the path), implication everywhere"},
	})
}

// stdWalk lists what the standard library can reach from e (pre-order).
func stdWalk(e error) []error {
	var out []error
	var rec func(e error)
	rec = func(e error) {
		for e != nil {
			out = append(out, e)
			switch x := e.(type) {
			case interface{ Unwrap() error }:
				e = x.Unwrap()
			case interface{ Unwrap() []error }:
				for _, b := range x.Unwrap() {
					rec(b)
				}
				return
			default:
				return
			}
		}
	}
	rec(e)
	return out
}

func runC14(c *core.Ctx) {
	g := gen.New(c.R)
	w := newIsWorld(c, g, 6, false)
	if w == nil {
		return
	}
	t, e := w.T, w.E
	if c.Case%50 == 0 {
		asMisuseProbe(c, e)
	}
	pos, neg := 0, 0
	walk := stdWalk(e)
	fullyWalkable := len(walk) == len(w.Vis)
	// Is
	for _, r := range w.Refs {
		var std, our bool
		var p1, p2 interface{}
		p1 = core.Try(func() { std = goErr.Is(e, r.Err) })
		our, p2 = safeIs(e, r.Err)
		c.Count("is-pairs", 1)
		if p2 != nil {
			c.Violate("is-panic", "our Is panicked", fmt.Sprintf("%s\n%v", t, p2))
			continue
		}
		if p1 == nil && std && !our {
			c.Violate("is/std-only", "the standard errors.Is matches but this library's Is does not", fmt.Sprintf("%s\nref %T %q", t, r.Err, r.Err))
		}
		if std && our {
			pos++
		} else if !std && !our {
			neg++
		}
	}
	// library-built layers are reachable by the standard library
	for _, x := range walk {
		if comparable(x) && !goErr.Is(e, x) {
			c.Violate("std-traversal/is", "the standard errors.Is does not find a layer it can walk to", fmt.Sprintf("%s\n%T", t, x))
		}
	}
	// As
	for _, pr := range asProbes {
		ourOK, ourV := pr.as(e)
		stdOK, stdV := stdAs(pr.goType, e)
		c.Count("as-probes", 1)
		switch {
		case stdOK && !ourOK:
			c.Violate("as/std-only/"+pr.goType, "the standard errors.As matches but this library's As does not", t.String())
		case stdOK && ourOK:
			pos++
			if comparable(stdV) && comparable(ourV) && stdV != ourV {
				// legitimate only if ours found an earlier match behind a Cause-only wrapper
				if fullyWalkable {
					c.Violate("as/value/"+pr.goType, "As assigns a different value than the standard errors.As", fmt.Sprintf("%s\n%p vs %p", t, stdV, ourV))
				} else {
					c.Count("as-value-differs-behind-cause-only(allowed)", 1)
				}
			}
		case !stdOK && ourOK:
			if fullyWalkable {
				c.Violate("as/ours-only/"+pr.goType, "As matches where the standard errors.As (which can walk the whole tree) does not", t.String())
			} else {
				c.Count("as-ours-only-behind-cause-only(allowed)", 1)
			}
		default:
			neg++
		}
	}
	// a type with its own As method (converted value, not identity)
	{
		var a, b *gen.AsTarget
		so, oo := goErr.As(e, &a), errors.As(e, &b)
		c.Count("as-probes", 1)
		if so && !oo {
			c.Violate("as/std-only/custom-As-method", "the standard errors.As succeeds through a type's own As method but ours does not", t.String())
		}
		if so && oo && fullyWalkable && a.From != b.From {
			c.Violate("as/value/custom-As-method", "As through a type's own As method converts another layer than the standard errors.As", fmt.Sprintf("%s\n%q vs %q", t, a.From, b.From))
		}
		if !so && oo && fullyWalkable {
			c.Violate("as/ours-only/custom-As-method", "As matches through an As method where the standard errors.As does not", t.String())
		}
	}
	// interface target
	{
		var a, b interface{ Timeout() bool }
		so, oo := goErr.As(e, &a), errors.As(e, &b)
		if so && !oo {
			c.Violate("as/std-only/Timeout-iface", "the standard errors.As matches an interface target but ours does not", t.String())
		}
		if so && oo && fullyWalkable && reflect.TypeOf(a) != reflect.TypeOf(b) {
			c.Violate("as/value/Timeout-iface", "As assigns a different value than the standard errors.As", t.String())
		}
	}
	// Unwrap, on every visible layer object
	for _, l := range w.Vis {
		x := l.Err
		su := goErr.Unwrap(x)
		ou := errors.Unwrap(x)
		c.Count("unwrap-comparisons", 1)
		if _, hasUnwrap := x.(interface{ Unwrap() error }); hasUnwrap {
			if !sameErr(su, ou) {
				c.Violate("unwrap/differs/"+famShort(l.Fam), "Unwrap differs from the standard errors.Unwrap on a type with an Unwrap() error method", fmt.Sprintf("%s\n%T", t, x))
			}
		}
		if _, multi := x.(interface{ Unwrap() []error }); multi {
			if ou != nil || su != nil {
				c.Violate("unwrap/multi/"+famShort(l.Fam), "Unwrap of a multi-cause error is not nil", fmt.Sprintf("%s\n%T", t, x))
			}
		}
		// Cause vs pkg/errors on chains where every wrapper implements Cause()
		allCause := true
		for y := x; y != nil; y = errors.UnwrapOnce(y) {
			if errors.UnwrapOnce(y) == nil {
				break
			}
			// every wrapper type of the library offers Cause() next to Unwrap() (that is what makes
			// pkg/errors.Cause work on its chains), so a library layer counts as a Cause() wrapper
			// whatever the object at hand says; foreign layers are asked
			if _, ok := y.(interface{ Cause() error }); !ok && !isLibType(y) {
				allCause = false
				break
			}
		}
		// on any single-cause chain UnwrapAll/Cause is the end of the UnwrapOnce walk
		if p := core.Try(func() {
			root := x
			for y := errors.UnwrapOnce(root); y != nil; y = errors.UnwrapOnce(root) {
				root = y
			}
			c.Count("root-comparisons", 1)
			if ua, oc := errors.UnwrapAll(x), errors.Cause(x); !sameErr(ua, root) || !sameErr(oc, root) {
				c.Violate("root/differs/"+famShort(l.Fam), "Cause/UnwrapAll is not the end of the single-cause chain", fmt.Sprintf("%s\n%T: root %T, Cause %T, UnwrapAll %T", t, x, root, oc, ua))
			}
		}); p != nil {
			c.Violate("root/panic/"+famShort(l.Fam), "Cause/UnwrapAll panicked", fmt.Sprintf("%s\n%T: %v", t, x, p))
		}
		if allCause {
			c.Count("cause-comparisons", 1)
			pc, oc, ua := pkgErr.Cause(x), errors.Cause(x), errors.UnwrapAll(x)
			if !sameErr(pc, oc) || !sameErr(oc, ua) {
				c.Violate("cause/differs/"+famShort(l.Fam), "Cause/UnwrapAll differs from pkg/errors.Cause on a chain of Cause() wrappers", fmt.Sprintf("%s\n%T: pkg %T, ours %T, UnwrapAll %T", t, x, pc, oc, ua))
			}
		}
	}
	// the same comparisons on what the library builds when DECODING: after a hop through a process
	// that knows none of the types, every layer is one of the library's opaque stand-ins
	if c.Case%3 == 0 {
		if p := core.Try(func() {
			d := sim.Transfer(e, []sim.Proc{{Forget: sim.KeysOf(e)}})
			if d == nil {
				return
			}
			for _, r := range w.Refs {
				c.Count("decoded-is-comparisons", 1)
				if goErr.Is(d, r.Err) && !errors.Is(d, r.Err) {
					c.Violate("decoded/std-is-not-implied", "on a decoded (opaque) chain the standard errors.Is holds and the library's does not", fmt.Sprintf("%s\nref %s", t, r.Origin))
				}
			}
			for _, x := range stdWalk(d) {
				c.Count("decoded-unwrap-comparisons", 1)
				if _, has := x.(interface{ Unwrap() error }); has && !sameErr(goErr.Unwrap(x), errors.Unwrap(x)) {
					c.Violate("decoded/unwrap", "Unwrap differs from the standard errors.Unwrap on a decoded layer", fmt.Sprintf("%s\n%T", t, x))
				}
				if _, multi := x.(interface{ Unwrap() []error }); multi && (goErr.Unwrap(x) != nil || errors.Unwrap(x) != nil) {
					c.Violate("decoded/unwrap-multi", "Unwrap of a decoded multi-cause layer is not nil", fmt.Sprintf("%s\n%T", t, x))
				}
				root := x
				for y := errors.UnwrapOnce(root); y != nil; y = errors.UnwrapOnce(root) {
					root = y
				}
				if !sameErr(errors.UnwrapAll(x), root) || !sameErr(pkgErr.Cause(x), root) && isLibChain(x) {
					c.Violate("decoded/root", "Cause / UnwrapAll / pkg/errors.Cause disagree on the root of a decoded chain", fmt.Sprintf("%s\n%T: root %T UnwrapAll %T pkg %T", t, x, root, errors.UnwrapAll(x), pkgErr.Cause(x)))
				}
			}
			// a layer the standard walk does not reach is a layer the standard Is/As cannot see
			if n, m := len(stdWalk(d)), len(obs.Nodes(d)); n != m {
				c.Violate("decoded/std-walk", "the standard library's Unwrap walk does not reach every layer of a decoded chain", fmt.Sprintf("%s\n%d of %d layers", t, n, m))
			}
		}); p != nil {
			c.Violate("decoded/panic", "panicked on a decoded chain", fmt.Sprintf("%s\n%v", t, p))
		}
	}
	if pos > 0 && neg > 0 {
		c.Nontrivial(t.Sig())
	}
	c.Sample(sample(t, map[string]interface{}{"refs": len(w.Refs), "std_walkable_layers": len(walk), "visible_layers": len(w.Vis), "joint_positive": pos, "joint_negative": neg}))
}

// asMisuseProbe: on API misuse (nil target, non-pointer target, pointer to a non-error
// non-interface type) the standard errors.As panics; so must the drop-in replacement.
func asMisuseProbe(c *core.Ctx, e error) {
	var notErr int
	for name, target := range map[string]interface{}{"nil": nil, "non-pointer": 3, "pointer-to-non-error": &notErr, "nil-pointer": (*error)(nil)} {
		sp := core.Try(func() { goErr.As(e, target) })
		op := core.Try(func() { errors.As(e, target) })
		c.Count("as-misuse-comparisons", 1)
		if (sp != nil) != (op != nil) {
			c.Violate("as-misuse/"+name, "As differs from the standard errors.As on API misuse (one panics, the other does not)", fmt.Sprintf("std panic: %v\nours: %v", sp, op))
		}
	}
}

func sameErr(a, b error) bool {
	if a == nil || b == nil {
		return a == nil && b == nil
	}
	if reflect.TypeOf(a) != reflect.TypeOf(b) {
		return false
	}
	if comparable(a) {
		return a == b
	}
	return true
}

// stdAs runs the standard errors.As for the probe's target type.
func stdAs(goType string, e error) (bool, error) {
	switch goType {
	case "*gen.NoFmtLeaf":
		var x *gen.NoFmtLeaf
		ok := goErr.As(e, &x)
		return ok, errOrNil(ok, x)
	case "*gen.FmtLeaf":
		var x *gen.FmtLeaf
		ok := goErr.As(e, &x)
		return ok, errOrNil(ok, x)
	case "*gen.SafeFmtLeaf":
		var x *gen.SafeFmtLeaf
		ok := goErr.As(e, &x)
		return ok, errOrNil(ok, x)
	case "*gen.OldFmtLeaf":
		var x *gen.OldFmtLeaf
		ok := goErr.As(e, &x)
		return ok, errOrNil(ok, x)
	case "*gen.FmtrLeaf":
		var x *gen.FmtrLeaf
		ok := goErr.As(e, &x)
		return ok, errOrNil(ok, x)
	case "*gen.IsLeaf":
		var x *gen.IsLeaf
		ok := goErr.As(e, &x)
		return ok, errOrNil(ok, x)
	case "*gen.LOW":
		var x *gen.LOW
		ok := goErr.As(e, &x)
		return ok, errOrNil(ok, x)
	case "*gen.NoFmtWrap":
		var x *gen.NoFmtWrap
		ok := goErr.As(e, &x)
		return ok, errOrNil(ok, x)
	case "*gen.CauseWrap":
		var x *gen.CauseWrap
		ok := goErr.As(e, &x)
		return ok, errOrNil(ok, x)
	case "*gen.FmtWrap":
		var x *gen.FmtWrap
		ok := goErr.As(e, &x)
		return ok, errOrNil(ok, x)
	case "*gen.SafeFmtWrap":
		var x *gen.SafeFmtWrap
		ok := goErr.As(e, &x)
		return ok, errOrNil(ok, x)
	case "*gen.EmptyWrap":
		var x *gen.EmptyWrap
		ok := goErr.As(e, &x)
		return ok, errOrNil(ok, x)
	case "*gen.OldFmtWrap":
		var x *gen.OldFmtWrap
		ok := goErr.As(e, &x)
		return ok, errOrNil(ok, x)
	case "*gen.FmtrWrap":
		var x *gen.FmtrWrap
		ok := goErr.As(e, &x)
		return ok, errOrNil(ok, x)
	case "*gen.ElideWrap":
		var x *gen.ElideWrap
		ok := goErr.As(e, &x)
		return ok, errOrNil(ok, x)
	case "*gen.MultiNoFmt":
		var x *gen.MultiNoFmt
		ok := goErr.As(e, &x)
		return ok, errOrNil(ok, x)
	case "*gen.MultiReg":
		var x *gen.MultiReg
		ok := goErr.As(e, &x)
		return ok, errOrNil(ok, x)
	case "gen.NCLeaf":
		var x gen.NCLeaf
		ok := goErr.As(e, &x)
		return ok, nil
	case "syscall.Errno":
		var x errnoT
		ok := goErr.As(e, &x)
		return ok, errOrNil(ok, x)
	}
	panic("stdAs: " + goType)
}

// isLibType: the dynamic type of y is defined by the library under test.
func isLibType(y error) bool {
	t := reflect.TypeOf(y)
	for t.Kind() == reflect.Ptr {
		t = t.Elem()
	}
	return strings.HasPrefix(t.PkgPath(), "github.com/cockroachdb/errors")
}

// isLibChain: every wrapper on the single-cause chain below x is a library type.
func isLibChain(x error) bool {
	for y := x; y != nil; y = errors.UnwrapOnce(y) {
		if errors.UnwrapOnce(y) != nil && !isLibType(y) {
			return false
		}
	}
	return true
}
