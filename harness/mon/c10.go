package mon

import (
	"context"
	goErr "errors"
	"fmt"
	"reflect"
	"syscall"

	"github.com/cockroachdb/errors"
	"github.com/cockroachdb/errors/barriers"
	"github.com/cockroachdb/errors/domains"
	"github.com/cockroachdb/errors/errutil"
	"github.com/cockroachdb/errors/extgrpc"
	"github.com/cockroachdb/errors/exthttp"
	gstatus "github.com/cockroachdb/errors/grpc/status"
	"github.com/cockroachdb/errors/join"
	"github.com/cockroachdb/errors/secondary"
	"github.com/cockroachdb/errors/withstack"
	"github.com/cockroachdb/logtags"
	"google.golang.org/grpc/codes"

	"verifharness/core"
	"verifharness/gen"
	"verifharness/model"
)

// annotation-only wrapper kinds (leave Error() and the root cause unchanged)
var annotOnly = map[string]bool{"withstack": true, "wrapempty": true, "hint": true, "detail": true, "safedetails": true, "safedetails0": true, "telemetry": true,
	"domain": true, "domainnone": true, "domainraw": true, "withstackdeep": true, "issuelink": true, "tags": true, "tagsafe": true, "hintf": true, "detailf": true, "issuelinkd": true, "issuelinku": true, "telemetry0": true, "combine": true, "assertion": true, "mark": true, "markempty": true, "secondary": true, "http": true, "grpc": true}

func init() {
	core.Register(&core.Prop{
		ID: "C10", Level: "exploration",
		Technique: "reference-model monitor: Error() of every layer vs a compositional text model; nil-propagation sweep over the constructor table",
		Rule: "cases 0..SweepSize-1: pairwise sweep outer(inner(leaf)) over all non-leaf kinds; then PRNG trees depth<=7 over regular strings; last case: every exported constructor x nil. " +
			"Non-trivial = depth>=3 or contains a multi-cause node; distinct = distinct kind-tree signature (strings erased).",
		Cases: func(t string) int { return gen.SweepSize() + tierN(3000, 400000)(t) + 1 },
		Floor: tierN(500, 5000),
		Run:   runC10,
		Assumptions: []string{"the text model (harness/model) is the oracle; stdlib/pkg-errors/os/net texts follow their documented formulas"},
	})
}

func runC10(c *core.Ctx) {
	if c.Case == c.NCases-1 {
		nilSweep(c)
		return
	}
	g := gen.New(c.R)
	t := caseTree(c, g, 7)
	if c.Case%8 == 6 && c.Case >= gen.SweepSize() {
		t = repeatLayer(c, g, t)
	}
	coverTree(c, t)
	if t.Depth() >= 3 || t.HasKind(gen.MultiKinds...) {
		c.Nontrivial(t.Sig())
	}
	e, m, ok := safeBuild(c, t)
	if !ok {
		return
	}
	c.Sample(sample(t, map[string]interface{}{"Error()": e.Error()}))
	if !checkModelShape(c, t, e, "model", false) {
		return
	}
	c.Count("layers-compared", len(model.Visible(t)))
	// annotation-only wrappers are transparent
	gen.Walk(t, func(n *gen.Node, hid bool) {
		if !annotOnly[n.Kind] {
			return
		}
		w, kid := m[n], m[n.Kids[0]]
		c.Count("transparency-checks", 1)
		ra, rb := errors.UnwrapAll(w), errors.UnwrapAll(kid)
		if comparable(ra) && comparable(rb) && ra != rb || reflect.TypeOf(ra) != reflect.TypeOf(rb) {
			c.Violate("transparent/root/"+n.Kind, "annotation-only wrapper changes the root cause", t.String())
		}
		if w.Error() != kid.Error() {
			c.Violate("transparent/text/"+n.Kind, "annotation-only wrapper changes Error()", fmt.Sprintf("%s\n%q vs %q", t, w.Error(), kid.Error()))
		}
		// every Is match of the wrapped error is kept
		for x := kid; x != nil; x = errors.UnwrapOnce(x) {
			if r, p := safeIs(kid, x); p == nil && r {
				if r2, p2 := safeIs(w, x); p2 == nil && !r2 {
					c.Violate("transparent/is/"+n.Kind, "annotation-only wrapper loses an Is match of the wrapped error", t.String())
				}
			}
		}
		for _, s := range gen.Sentinels {
			if r, p := safeIs(kid, s); p == nil && r {
				if r2, _ := safeIs(w, s); !r2 {
					c.Violate("transparent/is-sentinel/"+n.Kind, "annotation-only wrapper loses an Is match of the wrapped error", t.String())
				}
			}
		}
		// every As match is kept, same value
		asPairs(w, kid, func(name string, okW, okK bool, same bool) {
			if okK && (!okW || !same) {
				c.Violate("transparent/as/"+n.Kind+"/"+name, "annotation-only wrapper loses or changes an As match of the wrapped error", t.String())
			}
		})
	})
}

// asPairs runs errors.As on a and b for a fixed set of target types.
func asPairs(a, b error, f func(name string, okA, okB bool, same bool)) {
	{
		var x, y *gen.NoFmtLeaf
		oa, ob := errors.As(a, &x), errors.As(b, &y)
		f("*NoFmtLeaf", oa, ob, x == y)
	}
	{
		var x, y *gen.FmtWrap
		oa, ob := errors.As(a, &x), errors.As(b, &y)
		f("*FmtWrap", oa, ob, x == y)
	}
	{
		var x, y syscall.Errno
		oa, ob := errors.As(a, &x), errors.As(b, &y)
		f("Errno", oa, ob, x == y)
	}
	{
		var x, y *gen.SafeFmtWrap
		oa, ob := errors.As(a, &x), errors.As(b, &y)
		f("*SafeFmtWrap", oa, ob, x == y)
	}
	{
		var x, y interface{ Timeout() bool }
		oa, ob := errors.As(a, &x), errors.As(b, &y)
		f("Timeout-iface", oa, ob, !oa || !ob || reflect.TypeOf(x) == reflect.TypeOf(y))
	}
	{
		var x, y *gen.LOW
		oa, ob := errors.As(a, &x), errors.As(b, &y)
		f("*LOW", oa, ob, x == y)
	}
}

// ---- nil sweep --------------------------------------------------------

type nilCase struct {
	name string
	f    func() error
}

var bg = context.Background()

func nilTable() []nilCase {
	ref := goErr.New("r")
	var n error
	tagged := logtags.AddTag(logtags.AddTag(context.Background(), "k", "v"), "n", 1)
	link := errors.IssueLink{IssueURL: "u", Detail: "d"}
	return []nilCase{
		// the same constructors on their "rich argument" paths
		{"errors.WithContextTags(tagged ctx)", func() error { return errors.WithContextTags(n, tagged) }},
		{"errors.WithIssueLink(link)", func() error { return errors.WithIssueLink(n, link) }},
		{"errors.WithTelemetry(keys)", func() error { return errors.WithTelemetry(n, "a", "b") }},
		{"errors.WithSafeDetails(args)", func() error { return errors.WithSafeDetails(n, "x %s %v", "a", errors.Safe(1)) }},
		{"errors.Wrapf(error arg)", func() error { return errors.Wrapf(n, "x %v", ref) }},
		{"errors.WrapWithDepthf(error arg)", func() error { return errors.WrapWithDepthf(0, n, "x %v", ref) }},
		{"errors.Wrapf(args only)", func() error { return errors.Wrapf(n, "", ref) }},
		{"errors.Wrap(empty)", func() error { return errors.Wrap(n, "") }},
		{"errors.WithMessagef(args)", func() error { return errors.WithMessagef(n, "x %s", "a") }},
		{"errors.WithHintf(args)", func() error { return errors.WithHintf(n, "x %s", "a") }},
		{"errors.WithDetailf(args)", func() error { return errors.WithDetailf(n, "x %s", "a") }},
		{"errors.NewAssertionErrorWithWrappedErrf(error arg)", func() error { return errors.NewAssertionErrorWithWrappedErrf(n, "x %v", ref) }},
		{"errors.HandledInDomainWithMessage(named)", func() error { return errors.HandledInDomainWithMessage(n, errors.NamedDomain("d"), "m") }},
		{"errors.WithDomain(package domain)", func() error { return errors.WithDomain(n, errors.PackageDomain()) }},
		{"errors.EnsureNotInDomain(constructor)", func() error {
			return errors.EnsureNotInDomain(n, func(errors.Domain, error) error { return ref }, errors.NoDomain)
		}},
		{"errors.Mark(library ref)", func() error { return errors.Mark(n, errors.New("x")) }},
		{"errors.WithSecondaryError(library secondary)", func() error { return errors.WithSecondaryError(n, errors.New("x")) }},
		{"barriers.HandledWithMessagef(error arg)", func() error { return barriers.HandledWithMessagef(n, "x %v", ref) }},
		{"exthttp.WrapWithHTTPCode(500)", func() error { return exthttp.WrapWithHTTPCode(n, 500) }},
		{"extgrpc.WrapWithGrpcCode(Unknown)", func() error { return extgrpc.WrapWithGrpcCode(n, codes.Unknown) }},
		{"extgrpc.WrapWithGrpcCode(OK)", func() error { return extgrpc.WrapWithGrpcCode(n, codes.OK) }},
		{"grpc/status.WrapErrf(error arg)", func() error { return gstatus.WrapErrf(codes.Internal, n, "x %v", ref) }},
		{"errors.JoinWithDepth(nil,nil,nil)", func() error { return errors.JoinWithDepth(2, n, n, n) }},
		{"errors.Wrap", func() error { return errors.Wrap(n, "x") }},
		{"errors.Wrapf", func() error { return errors.Wrapf(n, "x %d", 1) }},
		{"errors.WrapWithDepth", func() error { return errors.WrapWithDepth(0, n, "x") }},
		{"errors.WrapWithDepthf", func() error { return errors.WrapWithDepthf(0, n, "x") }},
		{"errors.WithMessage", func() error { return errors.WithMessage(n, "x") }},
		{"errors.WithMessagef", func() error { return errors.WithMessagef(n, "x") }},
		{"errors.WithStack", func() error { return errors.WithStack(n) }},
		{"errors.WithStackDepth", func() error { return errors.WithStackDepth(n, 0) }},
		{"errors.WithHint", func() error { return errors.WithHint(n, "x") }},
		{"errors.WithHintf", func() error { return errors.WithHintf(n, "x") }},
		{"errors.WithDetail", func() error { return errors.WithDetail(n, "x") }},
		{"errors.WithDetailf", func() error { return errors.WithDetailf(n, "x") }},
		{"errors.WithSafeDetails", func() error { return errors.WithSafeDetails(n, "x") }},
		{"errors.WithTelemetry", func() error { return errors.WithTelemetry(n, "x") }},
		{"errors.WithDomain", func() error { return errors.WithDomain(n, "x") }},
		{"errors.WithIssueLink", func() error { return errors.WithIssueLink(n, errors.IssueLink{}) }},
		{"errors.WithContextTags", func() error { return errors.WithContextTags(n, bg) }},
		{"errors.WithAssertionFailure", func() error { return errors.WithAssertionFailure(n) }},
		{"errors.Mark", func() error { return errors.Mark(n, ref) }},
		{"errors.WithSecondaryError", func() error { return errors.WithSecondaryError(n, ref) }},
		{"errors.CombineErrors(nil,nil)", func() error { return errors.CombineErrors(n, n) }},
		{"errors.Handled", func() error { return errors.Handled(n) }},
		{"errors.Opaque", func() error { return errors.Opaque(n) }},
		{"errors.HandledWithMessage", func() error { return errors.HandledWithMessage(n, "x") }},
		{"errors.HandledInDomain", func() error { return errors.HandledInDomain(n, "x") }},
		{"errors.HandledInDomainWithMessage", func() error { return errors.HandledInDomainWithMessage(n, "x", "y") }},
		{"errors.HandleAsAssertionFailure", func() error { return errors.HandleAsAssertionFailure(n) }},
		{"errors.HandleAsAssertionFailureDepth", func() error { return errors.HandleAsAssertionFailureDepth(0, n) }},
		{"errors.NewAssertionErrorWithWrappedErrf", func() error { return errors.NewAssertionErrorWithWrappedErrf(n, "x") }},
		{"errors.EnsureNotInDomain", func() error { return errors.EnsureNotInDomain(n, nil, "x") }},
		{"errors.Join()", func() error { return errors.Join() }},
		{"errors.Join(nil,nil)", func() error { return errors.Join(n, n) }},
		{"errors.JoinWithDepth(nil)", func() error { return errors.JoinWithDepth(0, n) }},
		{"exthttp.WrapWithHTTPCode", func() error { return exthttp.WrapWithHTTPCode(n, 1) }},
		{"extgrpc.WrapWithGrpcCode", func() error { return extgrpc.WrapWithGrpcCode(n, 1) }},
		{"join.Join(nil)", func() error { return join.Join(n) }},
		{"errutil.JoinWithDepth()", func() error { return errutil.JoinWithDepth(0) }},
		{"errutil.HandleAsAssertionFailure", func() error { return errutil.HandleAsAssertionFailure(n) }},
		{"errutil.NewAssertionErrorWithWrappedErrf", func() error { return errutil.NewAssertionErrorWithWrappedErrf(n, "x") }},
		{"errutil.Wrap", func() error { return errutil.Wrap(n, "x") }},
		{"errutil.Wrapf", func() error { return errutil.Wrapf(n, "x") }},
		{"errutil.WithMessage", func() error { return errutil.WithMessage(n, "x") }},
		{"errutil.WithMessagef", func() error { return errutil.WithMessagef(n, "x") }},
		{"barriers.Handled", func() error { return barriers.Handled(n) }},
		{"barriers.HandledWithMessage", func() error { return barriers.HandledWithMessage(n, "x") }},
		{"barriers.HandledWithMessagef", func() error { return barriers.HandledWithMessagef(n, "x") }},
		{"barriers.HandledWithSafeMessage", func() error { return barriers.HandledWithSafeMessage(n, "x") }},
		{"domains.Handled", func() error { return domains.Handled(n) }},
		{"domains.HandledInDomain", func() error { return domains.HandledInDomain(n, "x") }},
		{"domains.HandledInDomainWithMessage", func() error { return domains.HandledInDomainWithMessage(n, "x", "m") }},
		{"domains.WithDomain", func() error { return domains.WithDomain(n, "x") }},
		{"secondary.CombineErrors", func() error { return secondary.CombineErrors(n, n) }},
		{"secondary.WithSecondaryError", func() error { return secondary.WithSecondaryError(n, ref) }},
		{"withstack.WithStack", func() error { return withstack.WithStack(n) }},
		{"withstack.WithStackDepth", func() error { return withstack.WithStackDepth(n, 0) }},
		{"grpc/status.WrapErr", func() error { return gstatus.WrapErr(codes.Internal, "x", n) }},
		{"grpc/status.WrapErrf", func() error { return gstatus.WrapErrf(codes.Internal, n, "x") }},
	}
}

func nilSweep(c *core.Ctx) {
	tab := nilTable()
	for _, nc := range tab {
		var e error
		if p := core.Try(func() { e = nc.f() }); p != nil {
			c.Violate("nil/panic/"+nc.name, "wrapper constructor panics on a nil error", fmt.Sprint(p))
			continue
		}
		c.Count("nil-constructor-calls", 1)
		c.Cover("nil-constructors", nc.name)
		if e != nil {
			txt := "(Error() panics)"
			core.Try(func() { txt = e.Error() })
			c.Violate("nil/"+nc.name, "wrapper constructor returns non-nil for a nil error", fmt.Sprintf("%s(nil) = %T %q", nc.name, e, txt))
		}
	}
	ref := goErr.New("r")
	// annotations with nothing to annotate return the error itself
	if got := errors.WithContextTags(ref, context.Background()); got != ref {
		c.Violate("identity/WithContextTags(no tags)", "WithContextTags with a context that carries no tags does not return the error itself", fmt.Sprintf("%T", got))
	}
	if got := errors.WithSafeDetails(ref, ""); got != ref {
		c.Violate("identity/WithSafeDetails(empty)", "WithSafeDetails without format and arguments does not return the error itself", fmt.Sprintf("%T", got))
	}
	if got := extgrpc.GetGrpcCode(nil); got != codes.OK {
		c.Violate("nil/GetGrpcCode", "GetGrpcCode(nil) is not OK", got.String())
	}
	if got := errors.CombineErrors(nil, ref); got != ref {
		c.Violate("nil/CombineErrors(nil,e)", "CombineErrors(nil, e) != e", fmt.Sprintf("%T", got))
	}
	if got := errors.CombineErrors(ref, nil); got != ref {
		c.Violate("nil/CombineErrors(e,nil)", "CombineErrors(e, nil) != e", fmt.Sprintf("%T", got))
	}
	if got := errors.WithSecondaryError(ref, nil); got != ref {
		c.Violate("nil/WithSecondaryError(e,nil)", "WithSecondaryError(e, nil) != e", fmt.Sprintf("%T", got))
	}
	if got := errors.Join(nil, ref, nil); got == nil || got.Error() != "r" {
		c.Violate("nil/Join(nil,e,nil)", "Join does not drop nil arguments", fmt.Sprint(got))
	}
	// leaf constructors return non-nil, whatever the strings
	g := gen.New(c.R)
	for i := 0; i < 200; i++ {
		for _, k := range gen.LeafKinds {
			if !gen.Specs[k].Lib {
				continue
			}
			n := g.Make(k, nil, nil)
			if i%2 == 1 {
				for j := range n.S {
					n.S[j] = ""
				}
			}
			var e error
			if p := core.Try(func() { e = gen.Build(n) }); p != nil || e == nil {
				c.Violate("leaf-nil/"+k, "leaf constructor returned nil or panicked", fmt.Sprintf("%s: %v", n, p))
			}
			c.Count("leaf-constructor-calls", 1)
		}
	}
	for _, e := range []error{errors.New(""), errors.Newf(""), errors.Errorf(""), errors.AssertionFailedf(""), errors.UnimplementedError(errors.IssueLink{}, ""),
		errors.UnimplementedErrorf(errors.IssueLink{}, ""), errors.NewWithDepth(0, ""), errors.NewWithDepthf(0, ""), errors.AssertionFailedWithDepthf(0, "")} {
		if e == nil {
			c.Violate("leaf-nil/empty", "leaf constructor returned nil for an empty message", "")
		}
	}
	c.Nontrivial("nil-sweep")
}
