package mon

import (
	"fmt"
	"regexp"
	"strings"

	"github.com/cockroachdb/errors"
	"google.golang.org/grpc/codes"

	"verifharness/core"
	"verifharness/gen"
	"verifharness/model"
	"verifharness/sim"
)

func init() {
	core.Register(&core.Prop{
		ID: "C09", Level: "exploration",
		Technique: "reference monitors on formatting: fmt on the Error() string as oracle for %v %s %q %x %X with every flag/width/precision variant; a %+v entry parser checked against the model's layer list (count, order, Go types, per-layer detail); refusal monitor for other verbs; Go-syntax monitor for %#v. Second monitor: the repository's curated leaf x wrapper corpus re-rendered and compared with vetted reference renderings",
		Rule: "monitor A: per case one tree (pairwise sweep, then PRNG depth<=6), regular strings; subjects = the error itself when its outermost layer is a library type, the error decoded at a knowing process, and every error through Formattable; 5 verbs x 10 flag sets x 3 widths x 4 precisions + 10 unsupported verbs + %#v + %+v structure. " +
			"Non-trivial = depth>=3 or multi-cause; distinct = kind-tree signature. Monitor B (corpus): see corpus/run.sh; its counts are reported under coverage.corpus.",
		Cases: func(t string) int { return gen.SweepSize() + tierN(600, 60000)(t) },
		Floor: tierN(500, 5000),
		Run:   runC09,
		Assumptions: []string{"fmt applied to the Error() string is the oracle for the simple verbs", "%+v's summary line is built from entry heads: for multi-line messages only the first line is compared",
			"'+' with s/q/x/X is not claimed by the statement (flag list '-', '#', ' ', '0')"},
	})
}

var c09specs = func() []string {
	var out []string
	flagSets := []string{"", "-", "#", " ", "0", "-#", "#0", "- ", " 0", "-0"}
	widths := []string{"", "5", "40"}
	precs := []string{"", ".0", ".3", ".60"}
	for _, v := range []string{"v", "s", "q", "x", "X"} {
		for _, f := range flagSets {
			if v == "v" && strings.Contains(f, "#") {
				continue // %#v is the Go-syntax dump
			}
			for _, w := range widths {
				for _, p := range precs {
					out = append(out, "%"+f+w+p+v)
				}
			}
		}
	}
	return out
}()

var badVerbs = []string{"%d", "%t", "%e", "%c", "%U", "%b", "%o", "%z", "%+d", "%5.2f", "%-5G"}

type subject struct {
	name    string
	v       interface{}
	err     error // underlying error
	display []model.VLayer
	local   bool // entries carry the library layers' own details
}

func runC09(c *core.Ctx) {
	g := gen.New(c.R)
	t := caseTree(c, g, 6)
	if c.Case%8 == 6 && c.Case >= gen.SweepSize() {
		t = repeatLayer(c, g, t)
	}
	coverTree(c, t)
	if t.Depth() >= 3 || t.HasKind(gen.MultiKinds...) {
		c.Nontrivial(t.Sig())
	}
	e, _, ok := safeBuild(c, t)
	if !ok {
		return
	}
	disp := model.Display(t)
	subs := []subject{{"formattable", errors.Formattable(e), e, disp, true}}
	if disp[0].IsLib() {
		subs = append(subs, subject{"direct", e, e, disp, true})
	}
	var dec error
	if p := core.Try(func() { dec, _ = sim.Hop(e) }); p == nil && dec != nil {
		tn := fmt.Sprintf("%T", dec)
		if strings.HasPrefix(tn, "*errbase.opaque") || disp[0].IsLib() {
			subs = append(subs, subject{"decoded", dec, dec, disp, false})
		}
		subs = append(subs, subject{"decoded-formattable", errors.Formattable(dec), dec, disp, false})
	}
	for _, s := range subs {
		c.Cover("subject", s.name)
		msg := s.err.Error()
		if p := core.Try(func() {
			for _, spec := range c09specs {
				c.Count("spec-renderings", 1)
				got := fmt.Sprintf(spec, s.v)
				want := fmt.Sprintf(spec, msg)
				if got != want {
					c.Violate("verb/"+s.name+"/"+specClass(spec), "a simple verb does not print what fmt prints for the Error() string",
						fmt.Sprintf("%s\n%s of %s: got %q want %q", t, spec, s.name, trimS(got, 500), trimS(want, 500)))
				}
			}
			for _, spec := range badVerbs {
				got := fmt.Sprintf(spec, s.v)
				verb := spec[len(spec)-1:]
				if !strings.HasPrefix(got, "%!"+verb+"(") || !strings.HasSuffix(got, ")") {
					c.Violate("badverb/"+s.name, "an unsupported verb is not rendered in fmt's %!verb(type) notation", fmt.Sprintf("%s\n%s of %s: %q", t, spec, s.name, trimS(got, 300)))
				}
				c.Count("unsupported-verb-renderings", 1)
			}
			if s.name == "direct" || s.name == "decoded" {
				gs := fmt.Sprintf("%#v", s.v)
				if x, ok := s.v.(fmt.GoStringer); ok {
					if gs != x.GoString() {
						c.Violate("gosyntax/gostring", "%#v is not GoString()", t.String())
					}
				} else if tn := strings.TrimPrefix(fmt.Sprintf("%T", s.v), "*"); !strings.HasPrefix(gs, "&"+tn+"{") && !strings.HasPrefix(gs, tn+"{") {
					c.Violate("gosyntax/"+s.name, "%#v is not a Go-syntax dump of the outermost layer", fmt.Sprintf("%s\n%q", t, trimS(gs, 300)))
				}
			}
			checkVerbose(c, t, s, msg)
		}); p != nil {
			c.Violate("panic/"+s.name, "formatting panicked", fmt.Sprintf("%s\n%v", t, p))
		}
	}
	c.Sample(sample(t, map[string]interface{}{"subjects": len(subs), "specs": len(c09specs), "layers": len(disp)}))
	if c.Case%50 == 0 {
		opErrArrowProbeC09(c, g)
	}
}

// opErrArrowProbeC09: see opErrBothTrees (known finding).
func opErrArrowProbeC09(c *core.Ctx, g *gen.Gen) {
	for _, t := range opErrBothTrees(g) {
		e, _, ok := safeBuild(c, t)
		if !ok {
			continue
		}
		subs := []subject{{name: "formattable", v: errors.Formattable(e), err: e}}
		if model.Display(t)[0].IsLib() {
			subs = append(subs, subject{name: "direct", v: e, err: e})
		}
		for _, s := range subs {
			if p := core.Try(func() {
				for _, spec := range []string{"%v", "%s", "%q"} {
					c.Count("operrboth-renderings", 1)
					got, want := fmt.Sprintf(spec, s.v), fmt.Sprintf(spec, e.Error())
					if got != want {
						c.Violate("verb/"+arrowClass(got, want), "a simple verb does not print what fmt prints for the Error() string",
							fmt.Sprintf("%s\n%s of %s: got %q want %q", t, spec, s.name, trimS(got, 500), trimS(want, 500)))
					}
				}
			}); p != nil {
				c.Violate("panic/operrboth", "formatting panicked", fmt.Sprintf("%s\n%v", t, p))
			}
		}
	}
}

func specClass(spec string) string {
	v := spec[len(spec)-1:]
	f := ""
	for _, ch := range spec[1 : len(spec)-1] {
		if strings.ContainsRune("-# 0", ch) {
			f += string(ch)
		} else {
			break
		}
	}
	if f != "" {
		return v + "+flags"
	}
	if len(spec) > 2 {
		return v + "+width/prec"
	}
	return v
}

var c09entryRe = regexp.MustCompile(`(?m)^(?:(?:  )*└─ )?Wraps: \((\d+)\)|^\((1)\)`)

func checkVerbose(c *core.Ctx, t *gen.Node, s subject, msg string) {
	pv := fmt.Sprintf("%+v", s.v)
	c.Count("verbose-renderings", 1)
	first := pv
	if i := strings.IndexByte(pv, '\n'); i >= 0 {
		first = pv[:i]
	}
	msgFirst := msg
	if i := strings.IndexByte(msg, '\n'); i >= 0 {
		msgFirst = msg[:i]
	}
	if !strings.Contains(msg, "\n") {
		if !strings.HasPrefix(pv, msg+"\n(1)") {
			c.Violate("plusv/start/"+s.name, "%+v does not start with the Error() text followed by entry (1)", fmt.Sprintf("%s\n%q\nwant prefix %q", t, trimS(pv, 400), msg))
		}
	} else if !strings.HasPrefix(first, msgFirst) {
		c.Violate("plusv/start-multiline/"+s.name, "%+v's first line does not start with the first line of Error()", fmt.Sprintf("%s\n%q vs %q", t, first, msgFirst))
	}
	// entries
	idx := c09entryRe.FindAllStringIndex(pv, -1)
	tl := strings.LastIndex(pv, "\nError types:")
	if tl < 0 {
		c.Violate("plusv/no-types-line/"+s.name, "%+v has no 'Error types' line", fmt.Sprintf("%s\n%s", t, trimS(pv, 600)))
		return
	}
	var entries []string
	for i, m := range idx {
		if m[0] > tl {
			break
		}
		end := tl
		if i+1 < len(idx) && idx[i+1][0] < tl {
			end = idx[i+1][0]
		}
		entries = append(entries, pv[m[0]:end])
	}
	if len(entries) != len(s.display) {
		c.Violate("plusv/entry-count/"+s.name, "%+v does not show exactly one numbered entry per visible layer",
			fmt.Sprintf("%s\n%d entries, %d layers\n%s", t, len(entries), len(s.display), trimS(pv, 3000)))
		return
	}
	// the Error types line: %T of every layer in display order
	var want strings.Builder
	want.WriteString("Error types:")
	nodes := displayLive(s.err)
	if len(nodes) == len(s.display) {
		for i, n := range nodes {
			fmt.Fprintf(&want, " (%d) %T", i+1, n)
			if s.local && fmt.Sprintf("%T", n) != s.display[i].GoType {
				c.Violate("plusv/layer-type", "Go type of a layer differs from the model", fmt.Sprintf("%s\nlayer %d: %T vs %s", t, i, n, s.display[i].GoType))
			}
		}
		if got := strings.TrimSpace(pv[tl+1:]); got != want.String() {
			c.Violate("plusv/types-line/"+s.name, "the 'Error types' line does not name the Go type of every layer in entry order", fmt.Sprintf("%s\ngot  %s\nwant %s", t, got, want.String()))
		}
	}
	// multi-cause branches are indented by depth: entries outside any
	// multi-cause node carry no branch marker and no indentation; entries
	// inside carry the marker, and a branch is indented deeper than the
	// multi-cause layer it belongs to.
	// (the library indents an entry inside a multi-cause node by its depth
	// in the tree: 2*(depth-2) spaces and a branch marker from depth 2 on)
	treeDepth := make([]int, len(entries))
	for i, en := range entries {
		l := s.display[i]
		if l.Parent >= 0 {
			treeDepth[i] = treeDepth[l.Parent] + 1
		}
		want := ""
		if l.Depth > 0 && treeDepth[i] >= 2 {
			want = strings.Repeat("  ", treeDepth[i]-2) + "└─ "
		}
		if i > 0 {
			want += "Wraps: ("
		} else {
			want += "(1)"
		}
		if !strings.HasPrefix(en, want) {
			c.Violate("plusv/indent/"+s.name, "a multi-cause branch entry is not indented by its depth (or an entry outside any multi-cause node is)",
				fmt.Sprintf("%s\nentry %d (multi-cause nesting %d, tree depth %d): starts with %q, want prefix %q", t, i+1, l.Depth, treeDepth[i], trimS(en, 30), want))
			break
		}
	}
	if !s.local {
		return
	}
	// each library layer's own detail appears in its entry
	for i, l := range s.display {
		en := entries[i]
		miss := func(what, needle string) {
			if needle != "" && !strings.Contains(en, needle) {
				c.Violate("plusv/detail/"+famShort(l.Family)+"/"+what, "a library wrapper's own detail is missing from its %+v entry",
					fmt.Sprintf("%s\nentry %d (%s): %s %q missing\nentry: %s", t, i+1, l.GoType, what, needle, trimS(en, 1200)))
			}
		}
		tok := gen.TokenOf
		switch {
		case strings.HasSuffix(l.GoType, ".withHint"):
			miss("hint", tok(l.Hint))
		case strings.HasSuffix(l.GoType, ".withDetail"):
			miss("detail", tok(l.Detail))
		case strings.HasSuffix(l.GoType, ".withIssueLink"):
			if l.Link[0] != "" {
				miss("issue", "issue: ")
				miss("issue-url", tok(l.Link[0]))
			}
			if l.Link[1] != "" {
				miss("issue-detail-label", "detail: ")
				miss("issue-detail", tok(l.Link[1]))
			}
		case strings.HasSuffix(l.GoType, ".unimplementedError"):
			miss("unimplemented", "unimplemented")
			if l.Link[0] != "" {
				miss("issue-url", tok(l.Link[0]))
			}
			if l.Link[1] != "" {
				miss("issue-detail", tok(l.Link[1]))
			}
		case strings.HasSuffix(l.GoType, ".withTelemetry"):
			miss("keys", "keys: [")
			for _, k := range l.Keys {
				miss("key", tok(k))
			}
		case strings.HasSuffix(l.GoType, ".withDomain"):
			if tk := tok(l.Domain); tk != "" {
				miss("domain", tk)
			} else {
				miss("domain", l.Domain)
			}
		case strings.HasSuffix(l.GoType, ".withContext"):
			miss("tags", "tags: [")
			for _, kv := range l.Tags {
				if tok(kv[0]) != "" {
					miss("tag-key", tok(kv[0]))
					miss("tag-value", tok(kv[1]))
				} else {
					miss("tag", kv[0]+kv[1])
				}
			}
		case strings.HasSuffix(l.GoType, ".withHTTPCode"):
			miss("http", fmt.Sprintf("http code: %d", l.HTTP))
		case strings.HasSuffix(l.GoType, ".withGrpcCode"):
			miss("grpc", "gRPC code: "+codes.Code(l.GRPC).String())
		case strings.HasSuffix(l.GoType, ".withAssertionFailure"):
			miss("assertion", "assertion failure")
		case strings.HasSuffix(l.GoType, ".withStack"):
			miss("stack", "stack trace")
			miss("frame", l.StackFn)
		case strings.HasSuffix(l.GoType, ".withMark"):
			miss("mark", "forced error mark")
		case l.Barrier || l.Secondary:
			if hn := l.Hides; hn != nil {
				ht := model.Text(hn)
				for _, f := range strings.Fields(ht) {
					if tk := tok(f); tk != "" {
						miss("hidden-text", tk)
					}
				}
			}
		}
	}
	c.Count("entries-checked", len(entries))
}

func minInt(a, b int) int {
	if a < b {
		return a
	}
	return b
}

// displayLive walks the live tree in %+v's entry order.
func displayLive(e error) []error {
	var out []error
	var rec func(e error)
	rec = func(e error) {
		out = append(out, e)
		if c := errors.UnwrapOnce(e); c != nil {
			rec(c)
			return
		}
		if me, ok := e.(interface{ Unwrap() []error }); ok {
			cs := me.Unwrap()
			for i := len(cs) - 1; i >= 0; i-- {
				rec(cs[i])
			}
		}
	}
	rec(e)
	return out
}
