// Package gen holds error-tree descriptors, the harness-owned error
// types, the builder that turns a descriptor into a live error through
// the library's public constructors, and the PRNG-driven generator.
package gen

import (
	"fmt"
	"strings"
)

// Node describes an error tree. Kids are visible causes (0 = leaf,
// 1 = wrapper, n = multi-cause); Hidden are errors that must not take
// part in cause analysis (barrier payload, secondary error, error passed
// as a format argument, Mark reference).
type Node struct {
	Kind   string   `json:"k"`
	S      []string `json:"s,omitempty"`
	N      []int    `json:"n,omitempty"`
	Kids   []*Node  `json:"kids,omitempty"`
	Hidden []*Node  `json:"hid,omitempty"`
}

func (n *Node) String() string {
	var b strings.Builder
	n.str(&b, true)
	return b.String()
}

// Sig is the structure signature: the kind tree with strings erased.
func (n *Node) Sig() string {
	var b strings.Builder
	n.str(&b, false)
	return b.String()
}

func (n *Node) str(b *strings.Builder, full bool) {
	b.WriteString(n.Kind)
	if full {
		if len(n.S) > 0 {
			fmt.Fprintf(b, "%q", n.S)
		}
		if len(n.N) > 0 {
			fmt.Fprintf(b, "%v", n.N)
		}
	}
	if len(n.Hidden) > 0 {
		b.WriteString("{")
		for i, k := range n.Hidden {
			if i > 0 {
				b.WriteString(",")
			}
			k.str(b, full)
		}
		b.WriteString("}")
	}
	if len(n.Kids) > 0 {
		b.WriteString("(")
		for i, k := range n.Kids {
			if i > 0 {
				b.WriteString(",")
			}
			k.str(b, full)
		}
		b.WriteString(")")
	}
}

// Clone deep-copies the tree; the second result lists all copied nodes
// in pre-order (kids before hidden).
func (n *Node) Clone() (*Node, []*Node) {
	var all []*Node
	var rec func(n *Node) *Node
	rec = func(n *Node) *Node {
		c := &Node{Kind: n.Kind, S: append([]string(nil), n.S...), N: append([]int(nil), n.N...)}
		all = append(all, c)
		for _, k := range n.Kids {
			c.Kids = append(c.Kids, rec(k))
		}
		for _, k := range n.Hidden {
			c.Hidden = append(c.Hidden, rec(k))
		}
		return c
	}
	return rec(n), all
}

// Walk visits all nodes including hidden ones, pre-order.
func Walk(n *Node, f func(n *Node, hidden bool)) { walk(n, false, f) }

func walk(n *Node, hid bool, f func(n *Node, hidden bool)) {
	f(n, hid)
	for _, k := range n.Kids {
		walk(k, hid, f)
	}
	for _, k := range n.Hidden {
		walk(k, true, f)
	}
}

// Depth of the tree counting hidden sub-trees.
func (n *Node) Depth() int {
	d := 0
	for _, k := range n.Kids {
		if x := k.Depth(); x > d {
			d = x
		}
	}
	for _, k := range n.Hidden {
		if x := k.Depth(); x > d {
			d = x
		}
	}
	return d + 1
}

// HasKind reports whether some node (hidden included) has one of the kinds.
func (n *Node) HasKind(kinds ...string) bool {
	found := false
	Walk(n, func(x *Node, _ bool) {
		for _, k := range kinds {
			if x.Kind == k {
				found = true
			}
		}
	})
	return found
}
