package gen

import (
	"context"
	goErr "errors"
	"fmt"
	"io"
	"net"
	"os"
	"strings"
	"syscall"

	"github.com/cockroachdb/errors"
	"github.com/cockroachdb/errors/barriers"
	"github.com/cockroachdb/errors/domains"
	"github.com/cockroachdb/errors/errorspb"
	"github.com/cockroachdb/errors/extgrpc"
	"github.com/cockroachdb/errors/exthttp"
	gstatus "github.com/cockroachdb/errors/grpc/status"
	"github.com/cockroachdb/errors/join"
	"github.com/cockroachdb/logtags"
	gogostatus "github.com/gogo/status"
	pkgErr "github.com/pkg/errors"
	"google.golang.org/grpc/codes"
	grpcstatus "google.golang.org/grpc/status"
)

// Class of a kind.
type Class int

const (
	Leaf       Class = iota // no kid, no hidden
	Wrap                    // one kid
	Barrier                 // no kid, one hidden (leaf to cause analysis)
	WrapHidden              // one kid and one hidden
	Multi                   // several kids
)

// Spec describes one kind.
type Spec struct {
	Name   string
	Class  Class
	NS     int   // number of strings
	Unsafe []int // indexes of S that enter through an unsafe channel
	Safe   []int // indexes of S the library declares PII-free
	Lib    bool  // outermost Go layer is a library type
	W      int   // generator weight
	NoRoot bool  // never placed as the outermost layer (mon.coverTree puts a stack layer on top)
}

// Specs is the kind table.
var Specs = map[string]*Spec{}

// Kind lists by class, in a fixed order (determinism).
var LeafKinds, WrapKinds, BarrierKinds, WrapHiddenKinds, MultiKinds []string

func reg(name string, c Class, ns int, unsafe, safe []int, lib bool, w int) {
	Specs[name] = &Spec{Name: name, Class: c, NS: ns, Unsafe: unsafe, Safe: safe, Lib: lib, W: w}
	switch c {
	case Leaf:
		LeafKinds = append(LeafKinds, name)
	case Wrap:
		WrapKinds = append(WrapKinds, name)
	case Barrier:
		BarrierKinds = append(BarrierKinds, name)
	case WrapHidden:
		WrapHiddenKinds = append(WrapHiddenKinds, name)
	case Multi:
		MultiKinds = append(MultiKinds, name)
	}
}

func ix(i ...int) []int { return i }

func init() {
	// library leaves
	reg("new", Leaf, 1, nil, ix(0), true, 4)
	reg("newf", Leaf, 3, ix(1), ix(0, 2), true, 4)
	reg("newf0", Leaf, 1, nil, ix(0), true, 1) // a format (with escaped %) and NO arguments
	reg("assertf", Leaf, 2, ix(1), ix(0), true, 2)
	reg("unimpl", Leaf, 3, ix(0), ix(1, 2), true, 2)
	reg("unimpld", Leaf, 2, ix(0), ix(1), true, 1) // issue link with a detail but no URL
	reg("domnew", Leaf, 1, ix(0), nil, true, 1)
	reg("gstatus", Leaf, 1, nil, ix(0), true, 1)
	reg("gstatusf", Leaf, 2, ix(1), ix(0), true, 1) // grpc/status.Errorf: safe format, unsafe argument
	reg("errorf", Leaf, 3, ix(1), ix(0, 2), true, 1)
	reg("unimplf", Leaf, 4, ix(0, 1), ix(2, 3), true, 1)
	reg("protoleaf", Leaf, 0, nil, nil, true, 1)
	reg("emptynew", Leaf, 0, nil, nil, true, 0) // New(""): weight 0, only ever placed as the reference of markempty
	reg("rterr", Leaf, 0, nil, nil, false, 1)
	// foreign leaves
	reg("goerr", Leaf, 1, ix(0), nil, false, 4)
	reg("pkgnew", Leaf, 1, ix(0), nil, false, 2)
	reg("sentinel", Leaf, 0, nil, nil, false, 4)
	reg("errno", Leaf, 0, nil, nil, false, 2)
	reg("grpcerr", Leaf, 1, ix(0), nil, false, 1)
	reg("gogoerr", Leaf, 1, ix(0), nil, false, 1)
	reg("nofmtleaf", Leaf, 1, ix(0), nil, false, 2)
	reg("fmtleaf", Leaf, 1, ix(0), nil, false, 2)
	reg("safefmtleaf", Leaf, 1, ix(0), nil, false, 2)
	reg("oldfmtleaf", Leaf, 1, ix(0), nil, false, 1)
	reg("fmtrleaf", Leaf, 1, ix(0), nil, false, 1)
	reg("ncleaf", Leaf, 1, ix(0), nil, false, 1)
	reg("isleaf", Leaf, 1, ix(0), nil, false, 1)
	reg("lowleaf", Leaf, 1, ix(0), nil, false, 1)
	reg("asleaf", Leaf, 1, ix(0), nil, false, 1)
	reg("fmtargleaf", Leaf, 2, ix(0, 1), nil, false, 1)   // FormatError prints an error VALUE as a format argument
	reg("protofailleaf", Leaf, 1, ix(0), nil, false, 1) // announces a protobuf payload that cannot be marshalled
	reg("silentsafeleaf", Leaf, 1, ix(0), nil, false, 0) // third-party SafeFormatter that prints nothing in short mode: weight 0, placed by C03 only
	reg("hdleaf", Leaf, 3, ix(0, 1, 2), nil, false, 1)    // third-party leaf with its own hint and detail
	reg("stacksafeleaf", Leaf, 2, ix(0), ix(1), false, 0) // weight 0: only placed explicitly (C12, C15); an unregistered type loses its stack in transfer
	// library wrappers
	reg("wrap", Wrap, 1, nil, ix(0), true, 4)
	reg("wrapempty", Wrap, 0, nil, nil, true, 1)
	reg("wrapf", Wrap, 2, ix(1), ix(0), true, 3)
	reg("wrapfempty", Wrap, 0, nil, nil, true, 1)  // Wrapf whose prefix FORMATS to the empty string ("%s" with "")
	reg("wrapf0", Wrap, 1, nil, ix(0), true, 1)    // a format (with escaped %) and NO arguments
	reg("withmsgf0", Wrap, 1, nil, ix(0), true, 1) // id.
	reg("withmsg", Wrap, 1, nil, ix(0), true, 2)
	reg("withmsgf", Wrap, 2, ix(1), ix(0), true, 1)
	reg("withstack", Wrap, 0, nil, nil, true, 2)
	reg("hint", Wrap, 1, ix(0), nil, true, 3)
	reg("hintf", Wrap, 2, ix(0, 1), nil, true, 1)
	reg("detailf", Wrap, 2, ix(0, 1), nil, true, 1)
	reg("telemetry0", Wrap, 0, nil, nil, true, 1)
	reg("detail", Wrap, 1, ix(0), nil, true, 3)
	reg("safedetails", Wrap, 3, ix(1), ix(0, 2), true, 2)
	reg("safedetails0", Wrap, 2, ix(0), ix(1), true, 1) // an EMPTY format with arguments (one unsafe, one Safe())
	reg("telemetry", Wrap, 2, nil, ix(0, 1), true, 2)
	reg("domain", Wrap, 1, nil, ix(0), true, 2)
	reg("domainraw", Wrap, 1, nil, ix(0), true, 1)   // a domain declared directly from the exported string type (no "error domain:" prefix)
	reg("withstackdeep", Wrap, 0, nil, nil, true, 1) // WithStackDepth far beyond the bottom of the goroutine stack: a stack layer without frames
	reg("domainnone", Wrap, 0, nil, nil, true, 1)    // WithDomain(e, NoDomain): the boundary value
	reg("issuelink", Wrap, 2, nil, ix(0, 1), true, 2)
	reg("issuelinkd", Wrap, 1, nil, ix(0), true, 1) // detail only, no URL
	reg("issuelinku", Wrap, 1, nil, ix(0), true, 1) // URL only, no detail
	reg("tags", Wrap, 2, ix(1), ix(0), true, 2)
	reg("tagsafe", Wrap, 2, nil, ix(0), true, 2) // a Safe() tag value (neutral: C12 enumerates tag keys, not values), a nil value, an int value
	reg("assertion", Wrap, 0, nil, nil, true, 2)
	reg("http", Wrap, 0, nil, nil, true, 2)
	reg("grpc", Wrap, 0, nil, nil, true, 2)
	reg("newfw", Wrap, 2, nil, ix(0, 1), true, 2)
	reg("gstatuswrap", Wrap, 1, nil, ix(0), true, 1)
	// foreign wrappers
	reg("goerrorf", Wrap, 1, ix(0), nil, false, 3)
	reg("goerrorfsfx", Wrap, 1, ix(0), nil, false, 1)
	reg("pkgmsg", Wrap, 1, ix(0), nil, false, 2)
	reg("pkgstack", Wrap, 0, nil, nil, false, 1)
	reg("pkgwrap", Wrap, 1, ix(0), nil, false, 1)
	reg("patherr", Wrap, 2, ix(1), nil, false, 1)
	reg("linkerr", Wrap, 3, ix(1, 2), nil, false, 1)
	reg("syscallerr", Wrap, 1, nil, nil, false, 1)
	reg("operr", Wrap, 2, ix(1), nil, false, 1)
	reg("operrsrc", Wrap, 2, ix(1), nil, false, 1)     // local address only (ReadFrom on an unconnected socket)
	reg("operrboth", Wrap, 3, ix(1, 2), nil, false, 0) // local and remote address; weight 0: placed explicitly by the C01/C09/C13 probes only (known finding: the library prints "src -> addr", net prints "src->addr")
	reg("operrnone", Wrap, 1, nil, nil, false, 1)      // no address at all
	reg("nofmtwrap", Wrap, 1, ix(0), nil, false, 2)
	reg("aswrap", Wrap, 1, ix(0), nil, false, 1)
	reg("causewrap", Wrap, 1, ix(0), nil, false, 1)
	reg("fmtwrap", Wrap, 1, ix(0), nil, false, 2)
	reg("safefmtwrap", Wrap, 1, ix(0), nil, false, 2)
	reg("emptywrap", Wrap, 0, nil, nil, false, 1)
	reg("oldfmtwrap", Wrap, 1, ix(0), nil, false, 1)
	reg("fmtrwrap", Wrap, 1, ix(0), nil, false, 1)
	reg("elidewrap", Wrap, 1, ix(0), nil, false, 1)
	reg("lowwrap", Wrap, 1, ix(0), nil, false, 1)
	reg("oldfmtelide", Wrap, 1, ix(0), nil, false, 1) // old-style Format, Error() replaces the cause's text
	reg("keymarkwrap", Wrap, 2, ix(0), nil, false, 1) // third-party wrapper with a type-key extension (ErrorKeyMarker); the extension is neutral: reported as part of the type mark, not in C12's list
	reg("safemsgwrap", Wrap, 1, nil, nil, false, 1)   // redact.SafeMessager wrapper overriding its cause's message (neutral string: safe here, opaque after a hop); never the root
	Specs["safemsgwrap"].NoRoot = true
	reg("hdwrap", Wrap, 3, ix(0, 1, 2), nil, false, 1) // third-party wrapper with its own hint and detail
	reg("ncwrap", Wrap, 1, ix(0), nil, false, 1)       // value-typed, not comparable
	// barriers
	reg("handled", Barrier, 0, nil, nil, true, 3)
	reg("handledmsg", Barrier, 1, ix(0), nil, true, 2)
	reg("handledmsgf", Barrier, 2, ix(1), ix(0), true, 1)
	reg("handledmsgf0", Barrier, 1, nil, ix(0), true, 1) // a format (with escaped %) and NO arguments
	reg("handledmsgempty", Barrier, 0, nil, nil, true, 0) // HandledWithMessage(e, ""): weight 0, only ever placed at the root (C07)
	reg("opaque", Barrier, 0, nil, nil, true, 1)
	reg("handleddomain", Barrier, 1, nil, ix(0), true, 1)
	reg("handleddommsg", Barrier, 2, ix(1), ix(0), true, 1)
	reg("domhandled", Barrier, 0, nil, nil, true, 1)
	reg("handleassert", Barrier, 0, nil, nil, true, 1)
	reg("assertwrap", Barrier, 2, ix(1), ix(0), true, 1)
	reg("newfe", Barrier, 1, nil, ix(0), true, 1)
	// wrappers with a hidden error
	reg("mark", WrapHidden, 0, nil, nil, true, 2)
	reg("markempty", WrapHidden, 0, nil, nil, true, 1) // Mark with a reference whose text is empty
	reg("secondary", WrapHidden, 0, nil, nil, true, 2)
	reg("wrapfe", WrapHidden, 1, nil, ix(0), true, 1)
	reg("combine", WrapHidden, 0, nil, nil, true, 1)
	reg("newfwe", WrapHidden, 2, nil, ix(0, 1), true, 1)
	reg("newfew", WrapHidden, 2, nil, ix(0, 1), true, 1) // the %w operand is NOT the first error argument
	// multi-cause
	reg("join", Multi, 0, nil, nil, true, 3)
	reg("joinbare", Multi, 0, nil, nil, true, 1) // the sub-package's join.Join: no stack layer above the join node
	reg("gojoin", Multi, 0, nil, nil, false, 2)
	reg("goerrorfmulti", Multi, 1, ix(0), nil, false, 2)
	reg("multinofmt", Multi, 1, ix(0), nil, false, 1)
	reg("multiis", Multi, 1, ix(0), nil, false, 1) // unregistered multi-cause type with its own Is method
	reg("multireg", Multi, 1, ix(0), nil, false, 1)
}

var errPoison = goErr.New("POISON: the caller's slice was reused after Join")

// UserSentinelA is a library-built sentinel; B a stdlib one.
var (
	UserSentinelA = errors.New("user sentinel A")
	UserSentinelB = goErr.New("user sentinel B")
)

// Sentinels is the pool the "sentinel" kind indexes with N[0].
var Sentinels = []error{
	context.Canceled, context.DeadlineExceeded,
	os.ErrNotExist, os.ErrPermission, os.ErrExist, os.ErrClosed,
	io.EOF, io.ErrUnexpectedEOF,
	UserSentinelA, UserSentinelB, IsSentinel,
	os.ErrInvalid, os.ErrNoDeadline, os.ErrDeadlineExceeded,
}

// RuntimeErrors the "rterr" kind indexes with N[0].
var RuntimeErrors = func() []error {
	catch := func(f func()) (err error) {
		defer func() { err = recover().(error) }()
		f()
		return nil
	}
	var m map[string]int
	var p *struct{ X int }
	var i interface{} = "s"
	return []error{
		catch(func() { m["x"] = 1 }),
		catch(func() { _ = p.X }),
		catch(func() { _ = i.(int) }),
	}
}()

// Errnos the "errno" kind indexes with N[0].
var Errnos = []syscall.Errno{syscall.ENOENT, syscall.EACCES, syscall.EEXIST, syscall.EAGAIN, syscall.ETIMEDOUT, syscall.EPERM, syscall.EINTR, syscall.ECONNREFUSED}

// OneLine replaces newlines: a domain declared directly from the string type doubles, unescaped,
// as the layer's type-mark extension, which the report prints one per line (NamedDomain escapes).
func OneLine(s string) string {
	return strings.NewReplacer("\n", " ", "\r", " ").Replace(s)
}

func esc(s string) string { return strings.ReplaceAll(s, "%", "%%") }

// BuildFn is the fully qualified name of Build, the expected first
// frame of every stack captured by a constructor called from it.
const BuildFn = "verifharness/gen.Build1"

// Built maps every descriptor node (visible or hidden) to the
// outermost live object built for it.
type Built map[*Node]error

// BuildMap builds the tree and records the object of every node.
func BuildMap(n *Node) (error, Built) {
	m := Built{}
	return build(n, m), m
}

// Build constructs the real error through public constructors only.
func Build(n *Node) error { return build(n, nil) }

func build(n *Node, m Built) error {
	// a descriptor that contains the SAME node twice (Join(e, e)) yields the same object twice
	if m != nil {
		if e, ok := m[n]; ok {
			return e
		}
	}
	e := Build1(n, m)
	if m != nil {
		m[n] = e
	}
	return e
}

// Build1 builds one node. All stack-capturing constructors are called
// directly from this function body so that the expected first frame is
// BuildFn.
func Build1(n *Node, m Built) error {
	var kids []error
	for _, k := range n.Kids {
		kids = append(kids, build(k, m))
	}
	var hid []error
	for _, k := range n.Hidden {
		hid = append(hid, build(k, m))
	}
	S := n.S
	switch n.Kind {
	// ---- library leaves
	case "new":
		return errors.New(S[0])
	case "emptynew":
		return errors.New("")
	case "newf":
		return errors.Newf("%s "+esc(S[0])+" %s", S[1], errors.Safe(S[2]))
	case "newf0":
		return errors.Newf(esc(S[0]) + " 100%%")
	case "assertf":
		return errors.AssertionFailedf(esc(S[0])+" %s", S[1])
	case "unimpl":
		return errors.UnimplementedError(errors.IssueLink{IssueURL: S[1], Detail: S[2]}, S[0])
	case "errorf":
		return errors.Errorf("%s "+esc(S[0])+" %s", S[1], errors.Safe(S[2]))
	case "unimplf":
		return errors.UnimplementedErrorf(errors.IssueLink{IssueURL: S[2], Detail: S[3]}, esc(S[0])+" %s", S[1])
	case "protoleaf":
		return &errorspb.TestError{}
	case "rterr":
		return RuntimeErrors[n.N[0]]
	case "unimpld":
		return errors.UnimplementedError(errors.IssueLink{Detail: S[1]}, S[0])
	case "domnew":
		return domains.New(S[0])
	case "gstatus":
		return gstatus.Error(codes.Code(n.N[0]), S[0])
	case "gstatusf":
		return gstatus.Errorf(codes.Code(n.N[0]), esc(S[0])+" %s", S[1])

	// ---- foreign leaves
	case "goerr":
		return goErr.New(S[0])
	case "pkgnew":
		return pkgErr.New(S[0])
	case "sentinel":
		return Sentinels[n.N[0]]
	case "errno":
		return Errnos[n.N[0]]
	case "grpcerr":
		return grpcstatus.Error(codes.Code(n.N[0]), S[0])
	case "gogoerr":
		return gogostatus.Error(codes.Code(n.N[0]), S[0])
	case "nofmtleaf":
		return &NoFmtLeaf{S[0]}
	case "fmtleaf":
		return &FmtLeaf{S[0]}
	case "safefmtleaf":
		return &SafeFmtLeaf{S[0]}
	case "oldfmtleaf":
		return &OldFmtLeaf{S[0]}
	case "fmtrleaf":
		return &FmtrLeaf{S[0]}
	case "ncleaf":
		return NCLeaf{Msg: S[0], X: []int{1}}
	case "fmtargleaf":
		return &FmtArgLeaf{S[0], goErr.New(S[1])}
	case "protofailleaf":
		return &ProtoFailLeaf{S[0]}
	case "silentsafeleaf":
		return &SilentSafeLeaf{S[0]}
	case "hdleaf":
		return &HDLeaf{S[0], S[1], S[2]}
	case "isleaf":
		return &IsLeaf{S[0]}
	case "lowleaf":
		return &LOW{Msg: S[0]}
	case "asleaf":
		return &AsLeaf{S[0]}
	case "stacksafeleaf":
		st := pkgErr.New("").(interface{ StackTrace() pkgErr.StackTrace }).StackTrace()
		if len(n.N) > 0 && n.N[0] == 1 {
			st = st[:1] // a type that records only its creation site
		}
		return &StackSafeLeaf{Msg: S[0], Safe: S[1], St: st}
	// ---- library wrappers
	case "wrap":
		return errors.Wrap(kids[0], S[0])
	case "wrapempty":
		return errors.Wrap(kids[0], "")
	case "wrapf":
		return errors.Wrapf(kids[0], esc(S[0])+" %s", S[1])
	case "wrapfempty":
		return errors.Wrapf(kids[0], "%s", "")
	case "wrapf0":
		return errors.Wrapf(kids[0], esc(S[0])+" 100%%")
	case "withmsgf0":
		return errors.WithMessagef(kids[0], esc(S[0])+" 100%%")
	case "withmsg":
		return errors.WithMessage(kids[0], S[0])
	case "withmsgf":
		return errors.WithMessagef(kids[0], esc(S[0])+" %s", S[1])
	case "withstack":
		return errors.WithStack(kids[0])
	case "hint":
		return errors.WithHint(kids[0], S[0])
	case "hintf":
		return errors.WithHintf(kids[0], esc(S[0])+" %s", S[1])
	case "detailf":
		return errors.WithDetailf(kids[0], esc(S[0])+" %s", S[1])
	case "telemetry0":
		return errors.WithTelemetry(kids[0])
	case "detail":
		return errors.WithDetail(kids[0], S[0])
	case "safedetails":
		return errors.WithSafeDetails(kids[0], esc(S[0])+" %s %s", S[1], errors.Safe(S[2]))
	case "safedetails0":
		return errors.WithSafeDetails(kids[0], "", S[0], errors.Safe(S[1]))
	case "telemetry":
		// a private copy: WithTelemetry keeps the variadic slice it is given, and the
		// descriptor's strings are shared by every error built from it (and by the model)
		return errors.WithTelemetry(kids[0], append([]string(nil), S...)...)
	case "domain":
		return errors.WithDomain(kids[0], errors.NamedDomain(S[0]))
	case "domainnone":
		return errors.WithDomain(kids[0], errors.NoDomain)
	case "domainraw":
		return errors.WithDomain(kids[0], errors.Domain(OneLine(S[0])))
	case "withstackdeep":
		return errors.WithStackDepth(kids[0], 100000)
	case "issuelink":
		return errors.WithIssueLink(kids[0], errors.IssueLink{IssueURL: S[0], Detail: S[1]})
	case "issuelinkd":
		return errors.WithIssueLink(kids[0], errors.IssueLink{Detail: S[0]})
	case "issuelinku":
		return errors.WithIssueLink(kids[0], errors.IssueLink{IssueURL: S[0]})
	case "tags":
		ctx := context.Background()
		ctx = logtags.AddTag(ctx, S[0], S[1])
		ctx = logtags.AddTag(ctx, "n", n.N[0])
		return errors.WithContextTags(kids[0], ctx)
	case "tagsafe":
		ctx := context.Background()
		ctx = logtags.AddTag(ctx, S[0], errors.Safe(S[1]))
		ctx = logtags.AddTag(ctx, "nilv", nil)
		ctx = logtags.AddTag(ctx, "n", n.N[0])
		return errors.WithContextTags(kids[0], ctx)
	case "assertion":
		return errors.WithAssertionFailure(kids[0])
	case "http":
		return exthttp.WrapWithHTTPCode(kids[0], n.N[0])
	case "grpc":
		return extgrpc.WrapWithGrpcCode(kids[0], codes.Code(n.N[0]))
	case "newfw":
		verb := " %w "
		if len(n.N) > 0 && n.N[0] == 1 {
			verb = " %[1]w " // the same verb with an explicit argument index
		}
		return errors.Newf(esc(S[0])+verb+esc(S[1]), kids[0])
	case "gstatuswrap":
		return gstatus.WrapErr(codes.Code(n.N[0]), S[0], kids[0])
	// ---- foreign wrappers
	case "goerrorf":
		return fmt.Errorf("%s: %w", S[0], kids[0])
	case "goerrorfsfx":
		return fmt.Errorf("%w - %s", kids[0], S[0])
	case "pkgmsg":
		return pkgErr.WithMessage(kids[0], S[0])
	case "pkgstack":
		return pkgErr.WithStack(kids[0])
	case "pkgwrap":
		return pkgErr.Wrap(kids[0], S[0])
	case "patherr":
		return &os.PathError{Op: S[0], Path: S[1], Err: kids[0]}
	case "linkerr":
		return &os.LinkError{Op: S[0], Old: S[1], New: S[2], Err: kids[0]}
	case "syscallerr":
		return os.NewSyscallError(S[0], kids[0])
	case "operr":
		return &net.OpError{Op: S[0], Net: "tcp", Addr: &net.UnixAddr{Name: S[1], Net: "unix"}, Err: kids[0]}
	case "operrsrc":
		return &net.OpError{Op: S[0], Net: "tcp", Source: &net.UnixAddr{Name: S[1], Net: "unix"}, Err: kids[0]}
	case "operrboth":
		return &net.OpError{Op: S[0], Net: "tcp", Source: &net.UnixAddr{Name: S[1], Net: "unix"}, Addr: &net.UnixAddr{Name: S[2], Net: "unix"}, Err: kids[0]}
	case "operrnone":
		return &net.OpError{Op: S[0], Net: "tcp", Err: kids[0]}
	case "aswrap":
		return &AsWrap{kids[0], S[0]}
	case "nofmtwrap":
		return &NoFmtWrap{kids[0], S[0]}
	case "causewrap":
		return &CauseWrap{kids[0], S[0]}
	case "fmtwrap":
		return &FmtWrap{kids[0], S[0]}
	case "safefmtwrap":
		return &SafeFmtWrap{kids[0], S[0]}
	case "emptywrap":
		return &EmptyWrap{kids[0]}
	case "oldfmtwrap":
		return &OldFmtWrap{kids[0], S[0]}
	case "fmtrwrap":
		return &FmtrWrap{kids[0], S[0]}
	case "elidewrap":
		return &ElideWrap{kids[0], S[0]}
	case "lowwrap":
		return &LOW{Msg: S[0], C: kids[0]}
	case "oldfmtelide":
		return &OldFmtElideWrap{kids[0], S[0]}
	case "keymarkwrap":
		return &KeyMarkWrap{kids[0], S[0], OneLine(S[1])}
	case "safemsgwrap":
		return &SafeMsgWrap{kids[0], S[0]}
	case "hdwrap":
		return &HDWrap{kids[0], S[0], S[1], S[2]}
	case "ncwrap":
		return NCWrap{C: kids[0], Msg: S[0], X: []int{1}}
	// ---- barriers
	case "handled":
		return errors.Handled(hid[0])
	case "handledmsg":
		return errors.HandledWithMessage(hid[0], S[0])
	case "handledmsgf":
		return barriers.HandledWithMessagef(hid[0], esc(S[0])+" %s", S[1])
	case "handledmsgf0":
		return barriers.HandledWithMessagef(hid[0], esc(S[0])+" 100%%")
	case "handledmsgempty":
		return errors.HandledWithMessage(hid[0], "")
	case "opaque":
		return errors.Opaque(hid[0])
	case "handleddomain":
		return errors.HandledInDomain(hid[0], errors.NamedDomain(S[0]))
	case "handleddommsg":
		return errors.HandledInDomainWithMessage(hid[0], errors.NamedDomain(S[0]), S[1])
	case "domhandled":
		return domains.Handled(hid[0])
	case "handleassert":
		return errors.HandleAsAssertionFailure(hid[0])
	case "assertwrap":
		return errors.NewAssertionErrorWithWrappedErrf(hid[0], esc(S[0])+" %s", S[1])
	case "newfe":
		return errors.Newf(esc(S[0])+" %v", hid[0])
	// ---- wrappers with a hidden error
	case "mark", "markempty":
		return errors.Mark(kids[0], hid[0])
	case "secondary":
		return errors.WithSecondaryError(kids[0], hid[0])
	case "wrapfe":
		return errors.Wrapf(kids[0], esc(S[0])+" %v", hid[0])
	case "combine":
		return errors.CombineErrors(kids[0], hid[0])
	case "newfwe":
		return errors.Newf(esc(S[0])+" %w "+esc(S[1])+" %v", kids[0], hid[0])
	case "newfew":
		return errors.Newf(esc(S[0])+" %v "+esc(S[1])+" %w", hid[0], kids[0])
	// ---- multi-cause
	case "join":
		j := errors.Join(kids...)
		// the caller owns (and may reuse) the slice it spread into Join
		for i := range kids {
			kids[i] = errPoison
		}
		return j
	case "joinbare":
		return join.Join(append([]error(nil), kids...)...)
	case "multiis":
		return &MultiIs{Msg: S[0], Cs: append([]error(nil), kids...)}
	case "gojoin":
		return goErr.Join(kids...)
	case "goerrorfmulti":
		if len(n.N) > 0 && n.N[0] == 1 {
			return fmt.Errorf("%w + %w: %s", kids[0], kids[1], S[0]) // the text does NOT end with the last cause's text
		}
		return fmt.Errorf("%s: %w + %w", S[0], kids[0], kids[1])
	case "multinofmt":
		return &MultiNoFmt{S[0], kids}
	case "multireg":
		return &MultiReg{S[0], kids}
	}
	panic("gen.Build: unknown kind " + n.Kind)
}
