package gen

import (
	"context"
	"fmt"

	"github.com/cockroachdb/errors"
	"github.com/cockroachdb/errors/errbase"
	"github.com/cockroachdb/errors/errorspb"
	"github.com/gogo/protobuf/proto"
	pkgErr "github.com/pkg/errors"
)

// ---- leaves ---------------------------------------------------------

type plainErr string

func (p plainErr) Error() string { return string(p) }
func goErrNew(s string) error    { return plainErr(s) }

// NoFmtLeaf: pointer type, Error() only.
type NoFmtLeaf struct{ Msg string }

func (e *NoFmtLeaf) Error() string { return e.Msg }

// FmtLeaf: Format -> FormatError (unsafe printer).
type FmtLeaf struct{ Msg string }

func (e *FmtLeaf) Error() string                 { return e.Msg }
func (e *FmtLeaf) Format(s fmt.State, verb rune) { errors.FormatError(e, s, verb) }
func (e *FmtLeaf) FormatError(p errors.Printer) error {
	p.Print(e.Msg)
	if p.Detail() {
		p.Printf("-- fmtleaf detail %s", e.Msg)
	}
	return nil
}

// SafeFmtLeaf: SafeFormatError, a safe constant and an unsafe argument.
type SafeFmtLeaf struct{ Msg string }

func (e *SafeFmtLeaf) Error() string                 { return fmt.Sprint(e) }
func (e *SafeFmtLeaf) Format(s fmt.State, verb rune) { errors.FormatError(e, s, verb) }
func (e *SafeFmtLeaf) SafeFormatError(p errors.Printer) error {
	p.Printf("safe %s", e.Msg)
	return nil
}

// OldFmtLeaf: old-style Format method that does its own thing.
type OldFmtLeaf struct{ Msg string }

func (e *OldFmtLeaf) Error() string { return e.Msg }
func (e *OldFmtLeaf) Format(s fmt.State, verb rune) {
	if verb == 'v' && s.Flag('+') {
		fmt.Fprintf(s, "%s\n-- oldfmtleaf verbose", e.Msg)
		return
	}
	fmt.Fprint(s, e.Msg)
}

// FmtrLeaf: implements errors.Formatter but no fmt.Formatter.
type FmtrLeaf struct{ Msg string }

func (e *FmtrLeaf) Error() string { return e.Msg }
func (e *FmtrLeaf) FormatError(p errors.Printer) error {
	p.Print(e.Msg)
	if p.Detail() {
		p.Printf("-- fmtrleaf detail %s", e.Msg)
	}
	return nil
}

// NCLeaf: a value type that is not comparable.
type NCLeaf struct {
	Msg string
	X   []int
}

func (e NCLeaf) Error() string { return e.Msg }

// IsSentinel is what IsLeaf's Is method recognizes (by identity).
var IsSentinel = &NoFmtLeaf{Msg: "is-sentinel"}

// IsLeaf: a leaf with its own Is method.
type IsLeaf struct{ Msg string }

func (e *IsLeaf) Error() string   { return e.Msg }
func (e *IsLeaf) Is(r error) bool { return r == error(IsSentinel) }

// AsTarget is what AsLeaf's As method can be converted to.
type AsTarget struct{ From string }

func (e *AsTarget) Error() string { return "as-target from " + e.From }

// AsLeaf: a leaf with its own As method (converts itself to *AsTarget).
type AsLeaf struct{ Msg string }

func (e *AsLeaf) Error() string { return e.Msg }
func (e *AsLeaf) As(target interface{}) bool {
	if t, ok := target.(**AsTarget); ok {
		*t = &AsTarget{From: e.Msg}
		return true
	}
	return false
}

// StackSafeLeaf: a third-party style leaf that has BOTH a pkg/errors-style
// StackTrace() method and a SafeDetails() method.
type StackSafeLeaf struct {
	Msg  string
	Safe string // reported through SafeDetails()
	St   pkgErr.StackTrace
}

func (e *StackSafeLeaf) Error() string                 { return e.Msg }
func (e *StackSafeLeaf) StackTrace() pkgErr.StackTrace { return e.St }
func (e *StackSafeLeaf) SafeDetails() []string         { return []string{"stacksafe detail", e.Safe} }

// AsWrap: a WRAPPER with its own As method: it converts itself to *AsTarget
// and declines every other target (the search must then go on below it).
type AsWrap struct {
	C   error
	Msg string
}

func (e *AsWrap) Error() string { return e.Msg + ": " + e.C.Error() }
func (e *AsWrap) Unwrap() error { return e.C }
func (e *AsWrap) As(target interface{}) bool {
	if t, ok := target.(**AsTarget); ok {
		*t = &AsTarget{From: "wrap:" + e.Msg}
		return true
	}
	return false
}

// LOW is sometimes a leaf and sometimes a wrapper.
type LOW struct {
	Msg string
	C   error
}

func (e *LOW) Error() string {
	if e.C == nil {
		return e.Msg
	}
	return e.Msg + ": " + e.C.Error()
}
func (e *LOW) Unwrap() error { return e.C }

// HDLeaf: a third-party leaf that carries its own hint and detail
// (errors.ErrorHinter / errors.ErrorDetailer, pgerror style); registered
// with a leaf encoder/decoder so that both survive the network.
type HDLeaf struct{ Msg, Hint, Detail string }

func (e *HDLeaf) Error() string       { return e.Msg }
func (e *HDLeaf) ErrorHint() string   { return e.Hint }
func (e *HDLeaf) ErrorDetail() string { return e.Detail }

// FmtArgLeaf: its FormatError hands an ERROR VALUE to the printer as a format argument.
type FmtArgLeaf struct {
	Msg string
	Aux error
}

func (e *FmtArgLeaf) Error() string                 { return e.Msg + " [" + e.Aux.Error() + "]" }
func (e *FmtArgLeaf) Format(s fmt.State, verb rune) { errors.FormatError(e, s, verb) }
func (e *FmtArgLeaf) FormatError(p errors.Printer) error {
	p.Printf("%s [%v]", e.Msg, e.Aux)
	return nil
}

// ProtoFailLeaf: a leaf that announces itself as a protobuf message but cannot be marshalled
// (the library drops the payload with a warning and sends the rest).
type ProtoFailLeaf struct{ Msg string }

func (e *ProtoFailLeaf) Error() string  { return e.Msg }
func (e *ProtoFailLeaf) Reset()         {}
func (e *ProtoFailLeaf) String() string { return e.Msg }
func (e *ProtoFailLeaf) ProtoMessage()  {}
func (e *ProtoFailLeaf) Marshal() ([]byte, error) {
	return nil, goErrNew("ProtoFailLeaf cannot be marshalled")
}

// SilentSafeLeaf: a third-party SafeFormatter whose SafeFormatError prints only a (safe) detail in
// verbose mode and nothing at all in short mode, while Error() carries the (unsafe) message.
type SilentSafeLeaf struct{ Msg string }

func (e *SilentSafeLeaf) Error() string                 { return e.Msg }
func (e *SilentSafeLeaf) Format(s fmt.State, verb rune) { errors.FormatError(e, s, verb) }
func (e *SilentSafeLeaf) SafeFormatError(p errors.Printer) error {
	if p.Detail() {
		p.Printf("silent safe detail")
	}
	return nil
}

// PanicLeaf: Error() panics (never part of a generated tree: a hostile Is reference).
type PanicLeaf struct{}

func (e *PanicLeaf) Error() string { panic("PanicLeaf.Error called") }

// ---- wrappers -------------------------------------------------------

// HDWrap: a third-party WRAPPER with its own hint and detail; registered.
type HDWrap struct {
	C                 error
	Msg, Hint, Detail string
}

func (e *HDWrap) Error() string       { return e.Msg + ": " + e.C.Error() }
func (e *HDWrap) Unwrap() error       { return e.C }
func (e *HDWrap) ErrorHint() string   { return e.Hint }
func (e *HDWrap) ErrorDetail() string { return e.Detail }

// KeyMarkWrap: a third-party wrapper that extends its type key
// (errbase.TypeKeyMarker), as the library's own domain layer does.
type KeyMarkWrap struct {
	C        error
	Msg, Key string
}

func (e *KeyMarkWrap) Error() string          { return e.Msg + ": " + e.C.Error() }
func (e *KeyMarkWrap) Unwrap() error          { return e.C }
func (e *KeyMarkWrap) ErrorKeyMarker() string { return e.Key }

// SafeMsgWrap: a wrapper that declares its message safe the old way
// (redact.SafeMessager), has no Format method, and whose message replaces
// its cause's. Never at the root of a tree (gen.Spec.NoRoot): the redact
// package itself short-cuts a SafeMessager that is handed to it directly.
type SafeMsgWrap struct {
	C   error
	Msg string
}

func (e *SafeMsgWrap) Error() string       { return e.Msg }
func (e *SafeMsgWrap) Unwrap() error       { return e.C }
func (e *SafeMsgWrap) SafeMessage() string { return e.Msg }

// NCWrap: a VALUE-typed wrapper that is not comparable (slice field).
type NCWrap struct {
	C   error
	Msg string
	X   []int
}

func (e NCWrap) Error() string { return e.Msg + ": " + e.C.Error() }
func (e NCWrap) Cause() error  { return e.C }

// NoFmtWrap: Unwrap-only, no Format.
type NoFmtWrap struct {
	C   error
	Msg string
}

func (e *NoFmtWrap) Error() string { return e.Msg + ": " + e.C.Error() }
func (e *NoFmtWrap) Unwrap() error { return e.C }

// CauseWrap: Cause-only, no Format.
type CauseWrap struct {
	C   error
	Msg string
}

func (e *CauseWrap) Error() string { return e.Msg + ": " + e.C.Error() }
func (e *CauseWrap) Cause() error  { return e.C }

// FmtWrap: Unwrap, Format -> FormatError.
type FmtWrap struct {
	C   error
	Msg string
}

func (e *FmtWrap) Error() string                 { return e.Msg + ": " + e.C.Error() }
func (e *FmtWrap) Unwrap() error                 { return e.C }
func (e *FmtWrap) Format(s fmt.State, verb rune) { errors.FormatError(e, s, verb) }
func (e *FmtWrap) FormatError(p errors.Printer) error {
	p.Print(e.Msg)
	if p.Detail() {
		p.Printf("-- fmtwrap detail %s", e.Msg)
	}
	return e.C
}

// SafeFmtWrap: Cause-only, SafeFormatError.
type SafeFmtWrap struct {
	C   error
	Msg string
}

func (e *SafeFmtWrap) Error() string                 { return fmt.Sprint(e) }
func (e *SafeFmtWrap) Cause() error                  { return e.C }
func (e *SafeFmtWrap) Format(s fmt.State, verb rune) { errors.FormatError(e, s, verb) }
func (e *SafeFmtWrap) SafeFormatError(p errors.Printer) error {
	p.Printf("safe %s", e.Msg)
	return e.C
}

// EmptyWrap: no message of its own, Error() delegates to the cause.
type EmptyWrap struct{ C error }

func (e *EmptyWrap) Error() string                 { return e.C.Error() }
func (e *EmptyWrap) Cause() error                  { return e.C }
func (e *EmptyWrap) Format(s fmt.State, verb rune) { errors.FormatError(e, s, verb) }

// OldFmtWrap: old-style Format.
type OldFmtWrap struct {
	C   error
	Msg string
}

func (e *OldFmtWrap) Error() string { return e.Msg + ": " + e.C.Error() }
func (e *OldFmtWrap) Unwrap() error { return e.C }
func (e *OldFmtWrap) Format(s fmt.State, verb rune) {
	if verb == 'v' && s.Flag('+') {
		fmt.Fprintf(s, "%+v\n-- oldfmtwrap verbose %s", e.C, e.Msg)
		return
	}
	fmt.Fprint(s, e.Error())
}

// FmtrWrap: errors.Formatter without fmt.Formatter.
type FmtrWrap struct {
	C   error
	Msg string
}

func (e *FmtrWrap) Error() string { return e.Msg + ": " + e.C.Error() }
func (e *FmtrWrap) Unwrap() error { return e.C }
func (e *FmtrWrap) FormatError(p errors.Printer) error {
	p.Print(e.Msg)
	return e.C
}

// ElideWrap: its message replaces the cause's; registered with a
// FullMessage encoder so that the elision survives the network.
type ElideWrap struct {
	C   error
	Msg string
}

func (e *ElideWrap) Error() string                 { return e.Msg }
func (e *ElideWrap) Unwrap() error                 { return e.C }
func (e *ElideWrap) Format(s fmt.State, verb rune) { errors.FormatError(e, s, verb) }
func (e *ElideWrap) FormatError(p errors.Printer) error {
	p.Print(e.Msg)
	return nil // nil elides the cause's message
}

// OldFmtElideWrap: an old-style Format method (no FormatError) AND an
// Error() that replaces the cause's text instead of prefixing it.
type OldFmtElideWrap struct {
	C   error
	Msg string
}

func (e *OldFmtElideWrap) Error() string { return e.Msg }
func (e *OldFmtElideWrap) Unwrap() error { return e.C }
func (e *OldFmtElideWrap) Format(s fmt.State, verb rune) {
	if verb == 'v' && s.Flag('+') {
		fmt.Fprintf(s, "%s\n-- oldfmtelide verbose", e.Msg)
		return
	}
	fmt.Fprint(s, e.Msg)
}

// ---- multi-cause ----------------------------------------------------

// MultiNoFmt: unregistered multi-cause error.
type MultiNoFmt struct {
	Msg string
	Cs  []error
}

func (e *MultiNoFmt) Error() string {
	s := e.Msg
	for _, c := range e.Cs {
		s += " / " + c.Error()
	}
	return s
}
func (e *MultiNoFmt) Unwrap() []error { return e.Cs }

// MultiIs: unregistered multi-cause error with its own Is method (in the
// style of aggregate error types): recognizes IsSentinel by identity.
type MultiIs struct {
	Msg string
	Cs  []error
}

func (e *MultiIs) Error() string {
	s := e.Msg
	for _, c := range e.Cs {
		s += " & " + c.Error()
	}
	return s
}
func (e *MultiIs) Unwrap() []error { return e.Cs }
func (e *MultiIs) Is(r error) bool { return r == error(IsSentinel) }

// MultiReg: registered multi-cause error.
type MultiReg struct {
	Msg string
	Cs  []error
}

func (e *MultiReg) Error() string {
	s := e.Msg
	for _, c := range e.Cs {
		s += " | " + c.Error()
	}
	return s
}
func (e *MultiReg) Unwrap() []error { return e.Cs }

func init() {
	k := errors.GetTypeKey((*ElideWrap)(nil))
	errors.RegisterWrapperEncoderWithMessageType(k,
		func(_ context.Context, err error) (string, []string, proto.Message, errbase.MessageType) {
			return err.(*ElideWrap).Msg, nil, nil, errbase.FullMessage
		})
	errors.RegisterWrapperDecoder(k,
		func(_ context.Context, cause error, msg string, _ []string, _ proto.Message) error {
			return &ElideWrap{C: cause, Msg: msg}
		})
	hl := errors.GetTypeKey((*HDLeaf)(nil))
	errors.RegisterLeafEncoder(hl, func(_ context.Context, err error) (string, []string, proto.Message) {
		e := err.(*HDLeaf)
		return e.Msg, nil, &errorspb.StringsPayload{Details: []string{e.Msg, e.Hint, e.Detail}}
	})
	errors.RegisterLeafDecoder(hl, func(_ context.Context, _ string, _ []string, payload proto.Message) error {
		m, ok := payload.(*errorspb.StringsPayload)
		if !ok || len(m.Details) != 3 {
			return nil
		}
		return &HDLeaf{Msg: m.Details[0], Hint: m.Details[1], Detail: m.Details[2]}
	})
	hw := errors.GetTypeKey((*HDWrap)(nil))
	errors.RegisterWrapperEncoder(hw, func(_ context.Context, err error) (string, []string, proto.Message) {
		e := err.(*HDWrap)
		return e.Msg, nil, &errorspb.StringsPayload{Details: []string{e.Msg, e.Hint, e.Detail}}
	})
	errors.RegisterWrapperDecoder(hw, func(_ context.Context, cause error, _ string, _ []string, payload proto.Message) error {
		m, ok := payload.(*errorspb.StringsPayload)
		if !ok || len(m.Details) != 3 {
			return nil
		}
		return &HDWrap{C: cause, Msg: m.Details[0], Hint: m.Details[1], Detail: m.Details[2]}
	})
	mk := errors.GetTypeKey((*MultiReg)(nil))
	errors.RegisterMultiCauseEncoder(mk,
		func(_ context.Context, err error) (string, []string, proto.Message) {
			// the wire message is the full text (what a process that does not
			// know the type displays); the own message travels in the payload.
			return err.Error(), nil, &errorspb.StringPayload{Msg: err.(*MultiReg).Msg}
		})
	errors.RegisterMultiCauseDecoder(mk,
		func(_ context.Context, causes []error, _ string, _ []string, payload proto.Message) error {
			m, ok := payload.(*errorspb.StringPayload)
			if !ok {
				return nil
			}
			return &MultiReg{Msg: m.Msg, Cs: causes}
		})
}
