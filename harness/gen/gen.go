package gen

import (
	"fmt"
	"math/rand"
	"strings"
)

// Gen is the PRNG-driven generator. One Gen per case: tokens are
// unique within a case.
type Gen struct {
	R   *rand.Rand
	Str func(g *Gen) string
	tok int

	// Relative weights of node classes below the root (defaults in New).
	WLeaf, WWrap, WBarrier, WWrapHidden, WMulti int
	// Allowed filters kinds (nil = all).
	Allowed func(kind string) bool
}

// New returns a generator with default weights and regular strings.
func New(r *rand.Rand) *Gen {
	return &Gen{R: r, Str: Regular, WLeaf: 3, WWrap: 13, WBarrier: 2, WWrapHidden: 2, WMulti: 3}
}

// Token returns a fresh unique searchable token.
func (g *Gen) Token() string { g.tok++; return fmt.Sprintf("zq%05dqz", g.tok) }

// TokenOf extracts the token of a generated string ("" if none).
func TokenOf(s string) string {
	i := strings.Index(s, "zq")
	for i >= 0 && i+9 <= len(s) {
		if s[i+7:i+9] == "qz" {
			return s[i : i+9]
		}
		j := strings.Index(s[i+1:], "zq")
		if j < 0 {
			break
		}
		i += 1 + j
	}
	return ""
}

var regWords = []string{"alpha", "be ta", "x: y", `q"uo'te`, "ünï", "日本", "a:b", ":", "tab\tbed", "-", "(p)", "[b]", "w",
	"end.", "a\nb", "<nil>", "\\n", "%d", "%s", "100%", "%!v(BAD)", "é́", "{x}", "a=b", "--", "c\nd e", "nil",
	// runes whose UTF-8 encoding is next to that of the redaction markers (E2 80 B9 / E2 80 BA): legal text
	"‸", "※", "x—y…", "a‸b※c"}

// Regular strings: non-empty valid UTF-8, no redaction markers, every
// newline interior and isolated. Always carries a token.
func Regular(g *Gen) string {
	r := g.R
	n := r.Intn(4)
	parts := make([]string, 0, n+1)
	for i := 0; i < n; i++ {
		parts = append(parts, regWords[r.Intn(len(regWords))])
	}
	pos := r.Intn(len(parts) + 1)
	parts = append(parts, "")
	copy(parts[pos+1:], parts[pos:])
	parts[pos] = g.Token()
	sep := " "
	if r.Intn(8) == 0 {
		sep = ": "
	}
	return strings.Join(parts, sep)
}

// RegularBin is Regular with one byte sequence that is NOT valid UTF-8 in the
// middle of a word (a raw key, a Latin-1 file name, a string cut mid-rune).
func RegularBin(g *Gen) string {
	s := Regular(g)
	bin := []string{"\xff\xfe", "\xc3\x28", "\xe6\x97", "\x80"}[g.R.Intn(4)]
	i := strings.Index(s, "zq") + 1
	return s[:i] + bin + s[i:]
}

// RegularMark is Regular with redaction-marker runes inside a word ("quota ‹soft› exceeded").
func RegularMark(g *Gen) string {
	s := Regular(g)
	m := []string{"‹", "›", "‹x›", "›‹"}[g.R.Intn(4)]
	i := strings.Index(s, "zq") + 1
	return s[:i] + m + s[i:]
}

var hostileParts = []string{"‹", "›", "\n", "", "\x00", "\xff\xfe", "%s", "%d", "%!v(X)", "‹x›", "›‹", "\n\n", " ", ": ", "?", "×", "‹×›", "a", "\t", "\r", "‹\n›", "%w", "\\"}

// Hostile strings: marker runes, newlines at any position, NUL,
// invalid UTF-8, printf verbs; always carries a token.
func Hostile(g *Gen) string {
	r := g.R
	var b strings.Builder
	for i, n := 0, r.Intn(4); i < n; i++ {
		b.WriteString(hostileParts[r.Intn(len(hostileParts))])
	}
	b.WriteString(g.Token())
	for i, n := 0, r.Intn(4); i < n; i++ {
		b.WriteString(hostileParts[r.Intn(len(hostileParts))])
	}
	return b.String()
}

// HostileUTF8 is Hostile restricted to valid UTF-8 (can cross the wire).
func HostileUTF8(g *Gen) string {
	for {
		s := Hostile(g)
		if !strings.Contains(s, "\xff") {
			return s
		}
	}
}

// Pool draws from a tiny pool with repeats and empties (C19).
func Pool(words []string) func(g *Gen) string {
	return func(g *Gen) string { return words[g.R.Intn(len(words))] }
}

func (g *Gen) allowed(k string) bool { return Specs[k].W > 0 && (g.Allowed == nil || g.Allowed(k)) }

func (g *Gen) pick(list []string) string {
	tot := 0
	for _, k := range list {
		if g.allowed(k) {
			tot += Specs[k].W
		}
	}
	if tot == 0 {
		return ""
	}
	x := g.R.Intn(tot)
	for _, k := range list {
		if !g.allowed(k) {
			continue
		}
		x -= Specs[k].W
		if x < 0 {
			return k
		}
	}
	panic("unreachable")
}

// Make fills in strings and numbers for a node of the given kind.
func (g *Gen) Make(kind string, kids, hidden []*Node) *Node {
	sp := Specs[kind]
	if sp == nil {
		panic("gen.Make: unknown kind " + kind)
	}
	n := &Node{Kind: kind, Kids: kids, Hidden: hidden}
	if kind == "markempty" {
		n.Hidden = []*Node{{Kind: "emptynew"}}
	}
	for i := 0; i < sp.NS; i++ {
		n.S = append(n.S, g.Str(g))
	}
	r := g.R
	switch kind {
	case "sentinel":
		n.N = []int{r.Intn(len(Sentinels))}
	case "errno":
		n.N = []int{r.Intn(len(Errnos))}
	case "rterr":
		n.N = []int{r.Intn(len(RuntimeErrors))}
	case "tags", "tagsafe":
		n.N = []int{r.Intn(100)}
	case "newfw":
		n.N = []int{r.Intn(2)} // 1: %[1]w instead of %w
	case "goerrorfmulti":
		n.N = []int{r.Intn(2)} // 1: the message comes AFTER the two %w operands
	case "stacksafeleaf":
		n.N = []int{r.Intn(2)} // 1: the recorded stack has exactly ONE frame
	case "http":
		n.N = []int{400 + r.Intn(200)}
		if r.Intn(8) == 0 {
			n.N[0] = 0 // the zero value is a legal code too
		}
	case "grpc":
		n.N = []int{r.Intn(17)} // including codes.OK
	case "gstatus", "gstatusf", "gstatuswrap", "grpcerr", "gogoerr":
		n.N = []int{1 + r.Intn(16)}
	}
	return n
}

// Leaf generates a random leaf.
func (g *Gen) Leaf() *Node { return g.Make(g.pick(LeafKinds), nil, nil) }

// Tree generates a random tree of at most the given depth.
func (g *Gen) Tree(depth int) *Node {
	r := g.R
	if depth <= 1 {
		return g.Leaf()
	}
	tot := g.WLeaf + g.WWrap + g.WBarrier + g.WWrapHidden + g.WMulti
	x := r.Intn(tot)
	switch {
	case x < g.WLeaf:
		return g.Leaf()
	case x < g.WLeaf+g.WWrap:
		if k := g.pick(WrapKinds); k != "" {
			return g.Make(k, []*Node{g.Tree(depth - 1)}, nil)
		}
	case x < g.WLeaf+g.WWrap+g.WBarrier:
		if k := g.pick(BarrierKinds); k != "" {
			return g.Make(k, nil, []*Node{g.Tree(depth - 1)})
		}
	case x < g.WLeaf+g.WWrap+g.WBarrier+g.WWrapHidden:
		if k := g.pick(WrapHiddenKinds); k != "" {
			return g.Make(k, []*Node{g.Tree(depth - 1)}, []*Node{g.Tree(depth - 2)})
		}
	default:
		if k := g.pick(MultiKinds); k != "" {
			nk := 2
			if k != "goerrorfmulti" {
				nk = 1 + r.Intn(3)
			}
			var kids []*Node
			for i := 0; i < nk; i++ {
				kids = append(kids, g.Tree(depth-1-r.Intn(2)))
			}
			return g.Make(k, kids, nil)
		}
	}
	return g.Leaf()
}

// NonLeafKinds in fixed order, for the pairwise sweep.
func NonLeafKinds() []string {
	var out []string
	for _, l := range [][]string{WrapKinds, BarrierKinds, WrapHiddenKinds, MultiKinds} {
		for _, k := range l {
			if Specs[k].W > 0 { // weight 0: only ever placed explicitly
				out = append(out, k)
			}
		}
	}
	return out
}

// OuterKinds can have a visible kid.
func OuterKinds() []string {
	var out []string
	for _, l := range [][]string{WrapKinds, WrapHiddenKinds, MultiKinds} {
		for _, k := range l {
			if Specs[k].W > 0 {
				out = append(out, k)
			}
		}
	}
	return out
}

// Around builds a node of the given kind around inner: inner becomes
// the (first) visible kid, or the hidden error for barrier kinds.
func (g *Gen) Around(kind string, inner *Node) *Node {
	switch Specs[kind].Class {
	case Wrap:
		return g.Make(kind, []*Node{inner}, nil)
	case Barrier:
		return g.Make(kind, nil, []*Node{inner})
	case WrapHidden:
		return g.Make(kind, []*Node{inner}, []*Node{g.Tree(2)})
	case Multi:
		kids := []*Node{inner, g.Leaf()}
		if g.R.Intn(2) == 0 {
			kids[0], kids[1] = kids[1], kids[0]
		}
		return g.Make(kind, kids, nil)
	}
	panic("Around: leaf kind " + kind)
}

// SweepSize is the number of (outer, inner, leaf-slot) combinations.
func SweepSize() int { return len(NonLeafKinds()) * len(NonLeafKinds()) }

// Sweep returns the i-th pairwise tree outer(inner(leaf)); the leaf
// kind cycles with i so that over seeds every leaf kind is met.
func (g *Gen) Sweep(i int) *Node {
	nl := NonLeafKinds()
	outer := nl[(i/len(nl))%len(nl)]
	inner := nl[i%len(nl)]
	// kinds the monitor has excluded are replaced by a plain stack layer
	if !g.allowed(outer) {
		outer = "withstack"
	}
	if !g.allowed(inner) {
		inner = "withstack"
	}
	li := (i + g.R.Intn(len(LeafKinds))) % len(LeafKinds)
	for !g.allowed(LeafKinds[li]) {
		li = (li + 1) % len(LeafKinds)
	}
	leaf := g.Make(LeafKinds[li], nil, nil)
	return g.Around(outer, g.Around(inner, leaf))
}

// ExtremeShapes names the shapes Extreme produces (evidence / coverage).
var ExtremeShapes = []string{"deep-chain", "wide-multi", "long-message", "same-value-twice", "deep-multi-spine"}

// Extreme generates a tree of an extreme but legal shape — sizes that hand-written tests
// do not use and that the depth-bounded Tree never reaches:
//
//	0 deep-chain        32..40 wrapper layers over a leaf, half of the time as a branch of a multi-cause node
//	1 wide-multi        a multi-cause node with 9..12 causes (small sub-trees), under 0..2 wrappers
//	2 long-message      a random tree in which one string is longer than 4 KiB
//	3 same-value-twice  a multi-cause node that holds the SAME error value as two of its causes
//	4 deep-multi-spine  6..8 nested two-cause nodes (rendering cost grows exponentially with this depth, so it stays small) (the second cause continues the spine)
func (g *Gen) Extreme(which int) (*Node, string) {
	r := g.R
	which = ((which % len(ExtremeShapes)) + len(ExtremeShapes)) % len(ExtremeShapes)
	wrap := func(t *Node) *Node {
		if k := g.pick(WrapKinds); k != "" {
			return g.Make(k, []*Node{t}, nil)
		}
		return t
	}
	multiKind := func() string {
		for i := 0; i < 20; i++ {
			if k := g.pick(MultiKinds); k != "" && k != "goerrorfmulti" {
				return k
			}
		}
		return ""
	}
	var t *Node
	switch which {
	case 0:
		t = g.Leaf()
		for i, d := 0, 32+r.Intn(9); i < d; i++ {
			t = wrap(t)
		}
		if r.Intn(2) == 0 {
			// ... as a branch of a multi-cause node: every layer of it is rendered nested by depth
			if k := multiKind(); k != "" {
				kids := []*Node{g.Leaf(), t}
				if r.Intn(2) == 0 {
					kids[0], kids[1] = kids[1], kids[0]
				}
				t = g.Make(k, kids, nil)
			}
		}
	case 1:
		k := multiKind()
		if k == "" {
			return g.Tree(3), "fallback"
		}
		var kids []*Node
		for i, n := 0, 9+r.Intn(4); i < n; i++ {
			kids = append(kids, g.Tree(1+r.Intn(2)))
		}
		t = g.Make(k, kids, nil)
		for i, d := 0, r.Intn(3); i < d; i++ {
			t = wrap(t)
		}
	case 2:
		t = g.Tree(2 + r.Intn(4))
		var cands []*Node
		Walk(t, func(n *Node, _ bool) {
			if len(n.S) > 0 {
				cands = append(cands, n)
			}
		})
		if len(cands) == 0 {
			t = g.Make("new", nil, nil)
			cands = []*Node{t}
		}
		n := cands[r.Intn(len(cands))]
		j := r.Intn(len(n.S))
		var b strings.Builder
		b.WriteString(n.S[j])
		if n.S[j] == "" {
			b.WriteString("w")
		}
		for b.Len() < 4200+r.Intn(600) {
			b.WriteString(" ")
			b.WriteString(regWords[r.Intn(len(regWords))])
		}
		n.S[j] = b.String()
	case 3:
		k := multiKind()
		if k == "" {
			return g.Tree(3), "fallback"
		}
		x := g.Tree(1 + r.Intn(3))
		kids := []*Node{x, x}
		if r.Intn(2) == 0 {
			kids = []*Node{x, g.Leaf(), x}
		}
		t = g.Make(k, kids, nil)
		if r.Intn(2) == 0 {
			t = wrap(t)
		}
	case 4:
		t = g.Leaf()
		for i, d := 0, 6+r.Intn(3); i < d; i++ {
			k := multiKind()
			if k == "" {
				return g.Tree(3), "fallback"
			}
			t = g.Make(k, []*Node{g.Leaf(), t}, nil)
		}
	}
	return t, ExtremeShapes[which]
}
