// Package sim simulates processes and network hops: encode -> protobuf
// bytes -> decode, knowing and unknowing receivers, and wire-level tools.
package sim

import (
	"context"
	"github.com/cockroachdb/redact"
	"sort"
	"strings"
	"sync/atomic"

	"github.com/cockroachdb/errors"
	"github.com/cockroachdb/errors/errbase"
	"github.com/cockroachdb/errors/errorspb"
	"github.com/gogo/protobuf/proto"
	"github.com/gogo/protobuf/types"
)

var Ctx = context.Background()

// Marshal serialises an encoded error.
func Marshal(enc errorspb.EncodedError) []byte {
	b, err := proto.Marshal(&enc)
	if err != nil {
		panic("sim.Marshal: " + err.Error())
	}
	return b
}

// Unmarshal parses wire bytes.
func Unmarshal(b []byte) (errorspb.EncodedError, error) {
	var dec errorspb.EncodedError
	err := proto.Unmarshal(b, &dec)
	return dec, err
}

// EncBytes encodes an error to wire bytes.
func EncBytes(e error) []byte { return Marshal(errors.EncodeError(Ctx, e)) }

// DecBytes decodes wire bytes at a knowing process.
func DecBytes(b []byte) error {
	enc, err := Unmarshal(b)
	if err != nil {
		panic("sim.DecBytes: " + err.Error())
	}
	return errors.DecodeError(Ctx, enc)
}

// Hop sends e to a knowing process; returns what it decoded and the
// bytes it received.
func Hop(e error) (error, []byte) {
	b := EncBytes(e)
	return DecBytes(b), b
}

// HopN applies k knowing hops.
func HopN(e error, k int) error {
	for i := 0; i < k; i++ {
		e, _ = Hop(e)
	}
	return e
}

// Proc is a process: Forget lists the type keys it does not know
// (nil = knowing).
//
// NoProto: the process does not link the protobuf message types of the
// payloads of the types it does not know either (as a binary built
// without the package that defines the error type would): the type URLs
// of those payloads are made unresolvable on the way in and restored on
// the way out, so that only what the process itself does with the
// message can differ.
//
// Declining: for the types it does not know, the process is not without a
// decoder but has a LEAF decoder that declines (returns nil) — an older
// version of the type that cannot read this payload, or a type that used to
// be a plain leaf. The library then falls back to the opaque representation
// exactly as if there were no decoder (for a node that carries multi-error
// causes: the one that keeps them).
type Proc struct {
	Forget    []string
	NoProto   bool
	Declining bool
}

func declined(context.Context, string, []string, proto.Message) error { return nil }

// forget puts p's knowledge into effect and returns the function that undoes it.
func (p Proc) forget() (restore func()) {
	if len(p.Forget) == 0 {
		return func() {}
	}
	undo := errbase.VerifForgetTypes(p.keys())
	if !p.Declining {
		return undo
	}
	for _, k := range p.keys() {
		errbase.RegisterLeafDecoder(k, declined)
	}
	return func() {
		for _, k := range p.keys() {
			errbase.RegisterLeafDecoder(k, nil)
		}
		undo()
	}
}

func (p Proc) mangle(b []byte) []byte {
	if !p.NoProto || len(p.Forget) == 0 {
		return b
	}
	forget := map[string]bool{}
	for _, k := range p.Forget {
		forget[k] = true
	}
	enc, err := Unmarshal(b)
	if err != nil {
		return b
	}
	VisitDetails(&enc, func(d *errorspb.EncodedErrorDetails, _ bool) {
		if forget[d.ErrorTypeMark.FamilyName] && d.FullDetails != nil && !strings.HasSuffix(d.FullDetails.TypeUrl, "/cockroach.errorspb.EncodedError") {
			d.FullDetails.TypeUrl += USuffix
		}
	})
	return Marshal(enc)
}

func (p Proc) unmangle(b []byte) []byte {
	if !p.NoProto || len(p.Forget) == 0 {
		return b
	}
	enc, err := Unmarshal(b)
	if err != nil {
		return b
	}
	VisitDetails(&enc, func(d *errorspb.EncodedErrorDetails, _ bool) {
		if d.FullDetails != nil {
			d.FullDetails.TypeUrl = strings.TrimSuffix(d.FullDetails.TypeUrl, USuffix)
		}
	})
	return Marshal(enc)
}

func (p Proc) keys() []errbase.TypeKey {
	ks := make([]errbase.TypeKey, len(p.Forget))
	for i, k := range p.Forget {
		ks[i] = errbase.TypeKey(k)
	}
	return ks
}

// Receive decodes b at process p and calls observe(d) while the
// process's knowledge is in effect; it returns the bytes the process
// would forward. observe may be nil.
func (p Proc) Receive(b []byte, observe func(d error)) (out []byte) {
	defer p.forget()()
	d := DecBytes(p.mangle(b))
	if observe != nil {
		observe(d)
	}
	return p.unmangle(EncBytes(d))
}

// VisitDetails calls f for every EncodedErrorDetails of the message,
// recursing through causes, multi-causes and nested EncodedErrors in
// Any payloads (which are re-marshalled after the visit).
func VisitDetails(e *errorspb.EncodedError, f func(d *errorspb.EncodedErrorDetails, wrapper bool)) {
	var d *errorspb.EncodedErrorDetails
	isW := false
	if w := e.GetWrapper(); w != nil {
		d, isW = &w.Details, true
		VisitDetails(&w.Cause, f)
	} else if l := e.GetLeaf(); l != nil {
		d = &l.Details
		for _, c := range l.MultierrorCauses {
			VisitDetails(c, f)
		}
	} else {
		return
	}
	f(d, isW)
	if d.FullDetails != nil && strings.HasSuffix(d.FullDetails.TypeUrl, "/cockroach.errorspb.EncodedError") {
		var ne errorspb.EncodedError
		if err := proto.Unmarshal(d.FullDetails.Value, &ne); err == nil {
			VisitDetails(&ne, f)
			if a, err := types.MarshalAny(&ne); err == nil {
				d.FullDetails = a
			}
		}
	}
}

// TypeKeys lists the distinct family names in the message (deep), sorted.
func TypeKeys(e *errorspb.EncodedError) []string {
	set := map[string]bool{}
	VisitDetails(e, func(d *errorspb.EncodedErrorDetails, _ bool) { set[d.ErrorTypeMark.FamilyName] = true })
	out := make([]string, 0, len(set))
	for k := range set {
		out = append(out, k)
	}
	sort.Strings(out)
	return out
}

// Complete reports whether every nested error has a leaf or a wrapper set.
func Complete(e *errorspb.EncodedError) bool {
	if w := e.GetWrapper(); w != nil {
		if !Complete(&w.Cause) {
			return false
		}
		return completeDetails(&w.Details)
	}
	if l := e.GetLeaf(); l != nil {
		for _, c := range l.MultierrorCauses {
			if c == nil || !Complete(c) {
				return false
			}
		}
		return completeDetails(&l.Details)
	}
	return false
}

func completeDetails(d *errorspb.EncodedErrorDetails) bool {
	if d.FullDetails != nil && strings.HasSuffix(d.FullDetails.TypeUrl, "/cockroach.errorspb.EncodedError") {
		var ne errorspb.EncodedError
		if err := proto.Unmarshal(d.FullDetails.Value, &ne); err == nil {
			return Complete(&ne)
		}
	}
	return true
}

// Suffix used by the hook-free renaming simulation.
const USuffix = "#U"

// RenameForget suffixes the family names in forget (deep).
func RenameForget(e *errorspb.EncodedError, forget map[string]bool) {
	VisitDetails(e, func(d *errorspb.EncodedErrorDetails, _ bool) {
		if forget[d.ErrorTypeMark.FamilyName] {
			d.ErrorTypeMark.FamilyName += USuffix
		}
	})
}

// RenameRestore removes the suffix from every string of the message.
func RenameRestore(e *errorspb.EncodedError) {
	VisitDetails(e, func(d *errorspb.EncodedErrorDetails, _ bool) {
		d.ErrorTypeMark.FamilyName = strings.ReplaceAll(d.ErrorTypeMark.FamilyName, USuffix, "")
		for i := range d.ReportablePayload {
			d.ReportablePayload[i] = strings.ReplaceAll(d.ReportablePayload[i], USuffix, "")
		}
	})
}

// DriftOwner locates the first details block that differs between two
// messages of the same shape; returns its family name.
func DriftOwner(a, b *errorspb.EncodedError) string {
	var da, db []*errorspb.EncodedErrorDetails
	var ma, mb []string
	collect := func(e *errorspb.EncodedError, ds *[]*errorspb.EncodedErrorDetails, ms *[]string) {
		var rec func(e *errorspb.EncodedError)
		rec = func(e *errorspb.EncodedError) {
			if w := e.GetWrapper(); w != nil {
				*ds = append(*ds, &w.Details)
				*ms = append(*ms, w.Message+"/"+w.MessageType.String())
				rec(&w.Cause)
			} else if l := e.GetLeaf(); l != nil {
				*ds = append(*ds, &l.Details)
				*ms = append(*ms, l.Message)
				for _, c := range l.MultierrorCauses {
					rec(c)
				}
			}
		}
		rec(e)
	}
	collect(a, &da, &ma)
	collect(b, &db, &mb)
	if len(da) != len(db) {
		return "shape"
	}
	for i := range da {
		if da[i].String() != db[i].String() || ma[i] != mb[i] {
			return da[i].ErrorTypeMark.FamilyName
		}
	}
	return "encoding-order"
}

// Decode decodes b at process p (its knowledge in effect during the decode).
func (p Proc) Decode(b []byte) error {
	defer p.forget()()
	return DecBytes(p.mangle(b))
}

// Transfer sends e through the history; the last process is the
// observer, whose decoded error is returned.
func Transfer(e error, hist []Proc) error {
	b := EncBytes(e)
	for _, p := range hist[:len(hist)-1] {
		b = p.Receive(b, nil)
	}
	return hist[len(hist)-1].Decode(b)
}

// KeysOf lists the type keys on the wire for e (deep).
func KeysOf(e error) []string {
	enc := errors.EncodeError(Ctx, e)
	return TypeKeys(&enc)
}

// ---- messages as other versions of the library would send them -----------

// visitNodes calls f for every node of the message (deep, through nested
// EncodedErrors in Any payloads, which are re-marshalled after the visit).
func visitNodes(e *errorspb.EncodedError, f func(l *errorspb.EncodedErrorLeaf, w *errorspb.EncodedWrapper)) {
	var d *errorspb.EncodedErrorDetails
	if w := e.GetWrapper(); w != nil {
		visitNodes(&w.Cause, f)
		f(nil, w)
		d = &w.Details
	} else if l := e.GetLeaf(); l != nil {
		for _, c := range l.MultierrorCauses {
			visitNodes(c, f)
		}
		f(l, nil)
		d = &l.Details
	} else {
		return
	}
	if d.FullDetails != nil && strings.HasSuffix(d.FullDetails.TypeUrl, "/cockroach.errorspb.EncodedError") {
		var ne errorspb.EncodedError
		if err := proto.Unmarshal(d.FullDetails.Value, &ne); err == nil {
			visitNodes(&ne, f)
			if a, err := types.MarshalAny(&ne); err == nil {
				d.FullDetails = a
			}
		}
	}
}

const barrierKey = "github.com/cockroachdb/errors/barriers/*barriers.barrierErr"

// OldPeer rewrites a message the way a peer running the PREVIOUS barrier
// implementation would have sent it: barrier leaves travel under the old
// type name (*barriers.barrierError) and their message is plain text (no
// redaction markers: that version had no redactable messages). n is the
// number of leaves rewritten.
func OldPeer(b []byte) (out []byte, n int) {
	enc, err := Unmarshal(b)
	if err != nil {
		return b, 0
	}
	visitNodes(&enc, func(l *errorspb.EncodedErrorLeaf, _ *errorspb.EncodedWrapper) {
		if l != nil && l.Details.ErrorTypeMark.FamilyName == barrierKey {
			l.Details.ErrorTypeMark.FamilyName = barrierKey + "or"
			l.Details.OriginalTypeName = barrierKey + "or"
			l.Message = redact.RedactableString(l.Message).StripMarkers()
			n++
		}
	})
	return Marshal(enc), n
}

// DropPayloads removes the structured payload (FullDetails) of every node
// except those that carry a nested EncodedError: what a relay, or a peer
// running a version without that payload, would deliver. The wire messages
// and reportable strings stay.
func DropPayloads(b []byte) (out []byte, n int) {
	enc, err := Unmarshal(b)
	if err != nil {
		return b, 0
	}
	VisitDetails(&enc, func(d *errorspb.EncodedErrorDetails, _ bool) {
		if d.FullDetails != nil && !strings.HasSuffix(d.FullDetails.TypeUrl, "/cockroach.errorspb.EncodedError") {
			d.FullDetails = nil
			n++
		}
	})
	return Marshal(enc), n
}

// Warnings counts what the library reports through its warning sink (a payload it could not
// marshal or unmarshal, ...): a warning is an event, not a failure. The default sink logs a
// verbose rendering of the error for every warning.
var Warnings int64

func init() {
	errors.SetWarningFn(func(context.Context, string, ...interface{}) { atomic.AddInt64(&Warnings, 1) })
}
