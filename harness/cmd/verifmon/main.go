// verifmon drives the monitors: workload -> executions -> monitors ->
// verdict + evidence. See /verif/DESIGN.md §1.
package main

import (
	"bufio"
	"encoding/json"
	"flag"
	"fmt"
	"os"
	"os/exec"
	"path/filepath"
	"runtime/debug"
	"sort"
	"strconv"
	"strings"
	"syscall"
	"time"

	"verifharness/core"
	_ "verifharness/mon"
)

var (
	fProp     = flag.String("prop", "", "property id")
	fTier     = flag.String("tier", "quick", "quick|thorough")
	fSeed     = flag.Int64("seed", 1, "seed")
	fRoot     = flag.String("root", "/verif", "verif root (known_findings.txt)")
	fOut      = flag.String("out", "", "directory for evidence/, replay/ and .work/ (default: root)")
	fChild    = flag.Bool("child", false, "child mode")
	fWorker   = flag.Int("worker", 0, "worker index")
	fWorkers  = flag.Int("workers", 16, "number of workers")
	fJournal  = flag.String("journal", "", "journal file (child)")
	fStatsOut = flag.String("statsout", "", "stats output file (child)")
	fReplay   = flag.String("replay", "", "replay file")
	fList     = flag.Bool("list", false, "list properties")
	fCase     = flag.Int("case", -1, "run a single case in-process, verbose")
)

func outDir() string {
	if *fOut != "" {
		return *fOut
	}
	return *fRoot
}

func main() {
	flag.Parse()
	if *fList {
		ids := make([]string, 0)
		for id := range core.Props {
			ids = append(ids, id)
		}
		sort.Strings(ids)
		for _, id := range ids {
			fmt.Println(id)
		}
		return
	}
	if *fReplay != "" {
		os.Exit(replay(*fReplay))
	}
	p := core.Props[*fProp]
	if p == nil {
		fmt.Fprintf(os.Stderr, "unknown property %q\n", *fProp)
		os.Exit(2)
	}
	if *fCase >= 0 {
		os.Exit(single(p, *fTier, *fSeed, *fCase))
	}
	if *fChild {
		child(p)
		return
	}
	os.Exit(parent(p))
}

// ---------------------------------------------------------------- child

func runCase(p *core.Prop, st *core.Stats, tier string, seed int64, idx, n int, verbose bool) {
	c := &core.Ctx{Prop: p.ID, Tier: tier, Seed: seed, Case: idx, NCases: n, St: st, Verbose: verbose,
		R: core.CaseRand(seed, p.ID, idx)}
	st.Evaluations++
	defer func() {
		if r := recover(); r != nil {
			// A panic that escapes a monitor is a harness-internal inconsistency
			// unless the monitor converted it itself: never a library verdict.
			c.Inconclusive(fmt.Sprintf("case %d: harness panic: %v\n%s", idx, r, trim(string(debug.Stack()), 3000)))
		}
	}()
	p.Run(c)
}

func child(p *core.Prop) {
	n := p.Cases(*fTier)
	st := core.NewStats()
	var jf *os.File
	if *fJournal != "" {
		var err error
		jf, err = os.Create(*fJournal)
		if err != nil {
			panic(err)
		}
	}
	// keep the footprint of a worker bounded (race-instrumented workers grow to several GB otherwise
	// and sixteen of them invite the kernel's OOM killer): a soft memory limit makes the collector
	// work harder instead, and freed memory is handed back regularly
	debug.SetMemoryLimit(2 << 30)
	for k, idx := 0, *fWorker; idx < n; k, idx = k+1, idx+*fWorkers {
		if jf != nil {
			fmt.Fprintf(jf, "B %d\n", idx)
		}
		runCase(p, st, *fTier, *fSeed, idx, n, false)
		if k%8 == 7 {
			debug.FreeOSMemory()
		}
	}
	if p.Finish != nil {
		p.Finish(st)
	}
	if jf != nil {
		fmt.Fprintf(jf, "DONE\n")
		jf.Close()
	}
	b, err := json.Marshal(st)
	if err != nil {
		panic(err)
	}
	if err := os.WriteFile(*fStatsOut, b, 0o644); err != nil {
		panic(err)
	}
}

func single(p *core.Prop, tier string, seed int64, idx int) int {
	st := core.NewStats()
	n := p.Cases(tier)
	runCase(p, st, tier, seed, idx, n, true)
	if p.Finish != nil {
		p.Finish(st)
	}
	return report(p, st, tier, seed, 0, false)
}

// ---------------------------------------------------------------- parent

func trim(s string, n int) string {
	if len(s) > n {
		return s[:n] + "…"
	}
	return s
}

func watchdog(tier string) time.Duration {
	if v := os.Getenv("VERIF_WATCHDOG_S"); v != "" {
		if n, err := strconv.Atoi(v); err == nil {
			return time.Duration(n) * time.Second
		}
	}
	if tier == "thorough" {
		return 6 * time.Hour // generous: a firing watchdog is inconclusive, and the machine may be loaded
	}
	return 45 * time.Minute
}

func parent(p *core.Prop) int {
	start := time.Now()
	n := p.Cases(*fTier)
	workers := *fWorkers
	if p.Serial {
		workers = 1
	}
	if workers > n {
		workers = n
	}
	if p.Race && *fTier == "thorough" && workers > 8 {
		workers = 8 // race-instrumented workers are memory-hungry; each still releases 48 goroutines per case
	}
	if workers < 1 {
		workers = 1
	}
	work := filepath.Join(outDir(), ".work", fmt.Sprintf("%s-%d", p.ID, os.Getpid()))
	if err := os.MkdirAll(work, 0o755); err != nil {
		panic(err)
	}
	defer os.RemoveAll(work)
	self, err := os.Executable()
	if err != nil {
		panic(err)
	}
	type ch struct {
		cmd            *exec.Cmd
		journal, stats string
		out            string
		err            error
		done           chan struct{}
	}
	chs := make([]*ch, workers)
	for w := 0; w < workers; w++ {
		c := &ch{journal: filepath.Join(work, fmt.Sprintf("journal.%d", w)), stats: filepath.Join(work, fmt.Sprintf("stats.%d", w)),
			out: filepath.Join(work, fmt.Sprintf("out.%d", w)), done: make(chan struct{})}
		c.cmd = exec.Command(self, "-child", "-prop", p.ID, "-tier", *fTier, "-seed", fmt.Sprint(*fSeed),
			"-worker", fmt.Sprint(w), "-workers", fmt.Sprint(workers), "-journal", c.journal, "-statsout", c.stats, "-root", *fRoot, "-out", outDir())
		of, err := os.Create(c.out)
		if err != nil {
			panic(err)
		}
		c.cmd.Stdout, c.cmd.Stderr = of, of
		c.cmd.Env = append(os.Environ(), "GOTRACEBACK=all")
		if p.Race {
			c.cmd.Env = append(c.cmd.Env, "GORACE=halt_on_error=0 exitcode=0 log_path="+filepath.Join(work, fmt.Sprintf("race.%d", w)))
		}
		if err := c.cmd.Start(); err != nil {
			panic(err)
		}
		go func() { c.err = c.cmd.Wait(); of.Close(); close(c.done) }()
		chs[w] = c
	}
	total := core.NewStats()
	deadline := time.After(watchdog(*fTier))
	timedOut := false
	for w, c := range chs {
		select {
		case <-c.done:
		case <-deadline:
			timedOut = true
		}
		if timedOut {
			for _, x := range chs {
				if x.cmd.Process != nil {
					x.cmd.Process.Signal(syscall.SIGQUIT)
				}
			}
			time.Sleep(2 * time.Second)
			for _, x := range chs {
				if x.cmd.Process != nil {
					x.cmd.Process.Kill()
				}
			}
			total.Inconclusive = append(total.Inconclusive, fmt.Sprintf("watchdog fired after %v (worker %d still running)", watchdog(*fTier), w))
			break
		}
		b, rerr := os.ReadFile(c.stats)
		if c.err != nil || rerr != nil {
			// process-fatal event: attribute to the last journalled case
			last := lastJournalled(c.journal)
			out, _ := os.ReadFile(c.out)
			// A worker that was killed from OUTSIDE (SIGKILL that the watchdog did not send: the kernel's
			// OOM killer, an operator) and left no runtime report says nothing about the library: inconclusive.
			// A fatal error of the Go runtime (concurrent map access, stack overflow, ...) exits with a report.
			if c.err != nil && strings.Contains(c.err.Error(), "signal: killed") && !strings.Contains(string(out), "fatal error") && !strings.Contains(string(out), "panic:") {
				total.Inconclusive = append(total.Inconclusive, fmt.Sprintf("worker %d was killed by the operating system while executing case %d (out of memory?): no verdict for its cases", w, last))
				continue
			}
			st := core.NewStats()
			st.NViolations = 1
			st.Violations = []core.Violation{{Prop: p.ID, Sig: "process-fatal", What: "child process died (fatal error / runaway) while executing a case",
				Case: last, Detail: fmt.Sprintf("exit: %v\n%s", c.err, trim(string(out), 4000))}}
			total.Merge(st)
			continue
		}
		st := core.NewStats()
		if err := json.Unmarshal(b, st); err != nil {
			total.Inconclusive = append(total.Inconclusive, "bad stats file from worker: "+err.Error())
			continue
		}
		total.Merge(st)
	}
	if p.Race {
		// the verdict counts WARNING: DATA RACE blocks in the log files
		files, _ := filepath.Glob(filepath.Join(work, "race.*"))
		blocks := 0
		dedup := map[string]int{}
		var firstBlock string
		for _, f := range files {
			b, _ := os.ReadFile(f)
			for _, blk := range strings.Split(string(b), "==================") {
				if !strings.Contains(blk, "WARNING: DATA RACE") {
					continue
				}
				blocks++
				dedup[raceKey(blk)]++
				if firstBlock == "" {
					firstBlock = blk
				}
			}
		}
		total.Counters["race-report-blocks"] = blocks
		total.Counters["race-report-distinct"] = len(dedup)
		if blocks > 0 {
			keys := make([]string, 0, len(dedup))
			for k := range dedup {
				keys = append(keys, k)
			}
			sort.Strings(keys)
			for _, k := range keys {
				total.NViolations++
				total.Violations = append(total.Violations, core.Violation{Prop: p.ID, Sig: "race/" + k,
					What: "data race reported by the race detector", Case: -1, Detail: trim(firstBlock, 5000)})
			}
		}
	}
	return report(p, total, *fTier, *fSeed, time.Since(start).Seconds(), true)
}

// raceKey de-duplicates race reports by the pair of innermost library frames.
func raceKey(blk string) string {
	var fns []string
	sc := bufio.NewScanner(strings.NewReader(blk))
	grab := false
	for sc.Scan() {
		l := sc.Text()
		if strings.HasPrefix(l, "Write at") || strings.HasPrefix(l, "Read at") || strings.HasPrefix(l, "Previous write at") || strings.HasPrefix(l, "Previous read at") {
			grab = true
			continue
		}
		if grab && strings.HasPrefix(l, "  ") && !strings.HasPrefix(l, "      ") {
			fn := strings.TrimSpace(l)
			if i := strings.Index(fn, "("); i > 0 {
				fn = fn[:i]
			}
			fns = append(fns, fn)
			grab = false
		}
	}
	sort.Strings(fns)
	return strings.Join(fns, "+")
}

func lastJournalled(path string) int {
	b, err := os.ReadFile(path)
	if err != nil {
		return -1
	}
	last := -1
	for _, l := range strings.Split(string(b), "\n") {
		if strings.HasPrefix(l, "B ") {
			if n, err := strconv.Atoi(strings.TrimPrefix(l, "B ")); err == nil {
				last = n
			}
		}
	}
	return last
}

// ---------------------------------------------------------------- verdict

type finding struct {
	prop, sig, what string
}

func loadFindings(root string) []finding {
	b, err := os.ReadFile(filepath.Join(root, "known_findings.txt"))
	if err != nil {
		return nil
	}
	var out []finding
	for _, l := range strings.Split(string(b), "\n") {
		l = strings.TrimSpace(l)
		if !strings.HasPrefix(l, "finding:") {
			continue // "fixed:" entries and comments suppress nothing
		}
		f := finding{}
		fields := strings.Fields(strings.TrimPrefix(l, "finding:"))
		rest := []string{}
		for _, x := range fields {
			switch {
			case strings.HasPrefix(x, "property=") && f.prop == "":
				f.prop = strings.TrimPrefix(x, "property=")
			case strings.HasPrefix(x, "sig=") && f.sig == "":
				f.sig = strings.TrimPrefix(x, "sig=")
			default:
				rest = append(rest, x)
			}
		}
		f.what = strings.Join(rest, " ")
		if f.prop != "" && f.sig != "" {
			out = append(out, f)
		}
	}
	return out
}

func report(p *core.Prop, st *core.Stats, tier string, seed int64, wall float64, writeEvidence bool) int {
	findings := loadFindings(*fRoot)
	known := map[string]finding{}
	for _, f := range findings {
		if f.prop == p.ID {
			known[f.sig] = f
		}
	}
	// stable order
	sort.SliceStable(st.Violations, func(i, j int) bool {
		if st.Violations[i].Sig != st.Violations[j].Sig {
			return st.Violations[i].Sig < st.Violations[j].Sig
		}
		return st.Violations[i].Case < st.Violations[j].Case
	})
	seenSig := map[string]bool{}
	var unknown []core.Violation
	knownHit := map[string]int{}
	for _, v := range st.Violations {
		if seenSig[v.Sig] {
			continue
		}
		seenSig[v.Sig] = true
		if f, ok := known[v.Sig]; ok {
			knownHit[v.Sig]++
			fmt.Printf("KNOWN-FINDING: property=%s %s [sig=%s, e.g. case %d]\n", p.ID, f.what, v.Sig, v.Case)
			continue
		}
		unknown = append(unknown, v)
	}
	distinct := len(st.Nontrivial)
	floor := 2
	if p.Floor != nil {
		floor = p.Floor(tier)
	}
	verdict := "held"
	code := 0
	if len(unknown) > 0 {
		verdict, code = "violated", 1
		os.MkdirAll(filepath.Join(outDir(), "replay"), 0o755)
		for _, v := range unknown {
			path := filepath.Join(outDir(), "replay", fmt.Sprintf("%s-%s-seed%d-case%d-%s.json", p.ID, tier, seed, v.Case, sanitize(v.Sig)))
			rb, _ := json.MarshalIndent(map[string]interface{}{"property": p.ID, "tier": tier, "seed": seed, "case": v.Case,
				"sig": v.Sig, "what": v.What, "detail": v.Detail}, "", " ")
			os.WriteFile(path, rb, 0o644)
			fmt.Printf("VIOLATION property=%s replay=%s\n", p.ID, path)
			fmt.Printf("  sig=%s\n  %s\n  %s\n", v.Sig, v.What, strings.ReplaceAll(trim(v.Detail, 1500), "\n", "\n  "))
		}
	} else if len(st.Inconclusive) > 0 || (writeEvidence && distinct < floor) {
		verdict, code = "inconclusive", 2
		for _, s := range st.Inconclusive {
			fmt.Printf("INCONCLUSIVE: %s\n", trim(s, 2000))
		}
		if distinct < floor {
			fmt.Printf("INCONCLUSIVE: coverage floor not met: %d distinct non-trivial cases < %d\n", distinct, floor)
		}
	}
	fmt.Printf("%s %s seed=%d: %s — %d evaluations, %d distinct non-trivial, %d violation observations (%d distinct signatures, %d known)\n",
		p.ID, tier, seed, verdict, st.Evaluations, distinct, st.NViolations, len(seenSig), len(knownHit))
	if writeEvidence {
		writeEv(p, st, tier, seed, wall, verdict, len(unknown), knownHit)
	}
	return code
}

func sanitize(s string) string {
	var b strings.Builder
	for _, r := range s {
		if r >= 'a' && r <= 'z' || r >= 'A' && r <= 'Z' || r >= '0' && r <= '9' || r == '-' || r == '.' {
			b.WriteRune(r)
		} else {
			b.WriteByte('_')
		}
	}
	x := b.String()
	if len(x) > 80 {
		x = x[:80]
	}
	return x
}

func writeEv(p *core.Prop, st *core.Stats, tier string, seed int64, wall float64, verdict string, nUnknown int, knownHit map[string]int) {
	cov := map[string]interface{}{
		"evaluations":            st.Evaluations,
		"distinct_nontrivial":    len(st.Nontrivial),
		"rule":                   p.Rule,
		"verdict":                verdict,
		"counters":               st.Counters,
		"known_findings_hit":     knownHit,
		"violation_observations": st.NViolations,
	}
	samples := make([]interface{}, 0)
	for _, s := range st.Samples {
		var v interface{}
		json.Unmarshal(s, &v)
		samples = append(samples, v)
	}
	cov["samples"] = samples
	if p.Exhaustive {
		cov["exhaustive"] = true
	}
	for dim, m := range st.Cover {
		if len(m) <= 120 {
			cov["cover_"+dim] = m
		} else {
			cov["cover_"+dim+"_distinct"] = len(m)
		}
	}
	ev := map[string]interface{}{
		"property_id": p.ID,
		"tier":        tier,
		"seed":        seed,
		"level":       p.Level,
		"coverage":    cov,
		"assumptions": p.Assumptions,
		"wall_s":      wall,
		"violations":  nUnknown,
	}
	b, _ := json.MarshalIndent(ev, "", " ")
	os.MkdirAll(filepath.Join(outDir(), "evidence"), 0o755)
	if err := os.WriteFile(filepath.Join(outDir(), "evidence", p.ID+".json"), b, 0o644); err != nil {
		fmt.Fprintln(os.Stderr, "cannot write evidence:", err)
	}
}

func replay(path string) int {
	b, err := os.ReadFile(path)
	if err != nil {
		fmt.Fprintln(os.Stderr, err)
		return 2
	}
	var r struct {
		Property string `json:"property"`
		Tier     string `json:"tier"`
		Seed     int64  `json:"seed"`
		Case     int    `json:"case"`
	}
	if err := json.Unmarshal(b, &r); err != nil {
		fmt.Fprintln(os.Stderr, err)
		return 2
	}
	p := core.Props[r.Property]
	if p == nil {
		fmt.Fprintln(os.Stderr, "unknown property", r.Property)
		return 2
	}
	if r.Case < 0 {
		fmt.Println("this witness is not tied to a single case (race report / watchdog); re-run the check")
		return 2
	}
	return single(p, r.Tier, r.Seed, r.Case)
}
