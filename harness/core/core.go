// Package core is the monitor framework: case contexts, per-worker
// statistics, violations and their signatures.
package core

import (
	"encoding/json"
	"fmt"
	"hash/fnv"
	"math/rand"
	"sort"
)

// Prop describes one property's check.
type Prop struct {
	ID         string
	Level      string // exploration | fault_enumeration
	Rule       string
	Technique  string
	Cases      func(tier string) int
	Run        func(c *Ctx)            // runs case c.Case
	Floor      func(tier string) int   // minimum distinct non-trivial cases for "held"
	Exhaustive bool
	Race       bool // must run in the -race binary
	Serial     bool // single worker (mutates process-global state heavily or uses the network)
	Assumptions []string
	// Finish is called once in each worker after its last case (optional).
	Finish func(st *Stats)
}

// Registry of properties.
var Props = map[string]*Prop{}

func Register(p *Prop) { Props[p.ID] = p }

// Violation is one observed refutation.
type Violation struct {
	Prop   string `json:"property"`
	Sig    string `json:"sig"`
	What   string `json:"what"`
	Case   int    `json:"case"`
	Detail string `json:"detail"`
}

// Stats accumulates what a worker observed.
type Stats struct {
	Evaluations int                       `json:"evaluations"`
	Nontrivial  map[string]int            `json:"nontrivial"` // structure signature -> count
	Cover       map[string]map[string]int `json:"cover"`      // dimension -> key -> count
	Counters    map[string]int            `json:"counters"`
	Samples     []json.RawMessage         `json:"samples"`
	Violations  []Violation               `json:"violations"`
	NViolations int                       `json:"nviolations"`
	Inconclusive []string                 `json:"inconclusive"`
}

func NewStats() *Stats {
	return &Stats{Nontrivial: map[string]int{}, Cover: map[string]map[string]int{}, Counters: map[string]int{}}
}

// Merge adds o into s.
func (s *Stats) Merge(o *Stats) {
	s.Evaluations += o.Evaluations
	for k, v := range o.Nontrivial {
		s.Nontrivial[k] += v
	}
	for d, m := range o.Cover {
		if s.Cover[d] == nil {
			s.Cover[d] = map[string]int{}
		}
		for k, v := range m {
			s.Cover[d][k] += v
		}
	}
	for k, v := range o.Counters {
		s.Counters[k] += v
	}
	for _, x := range o.Samples {
		if len(s.Samples) < 5 {
			s.Samples = append(s.Samples, x)
		}
	}
	s.Violations = append(s.Violations, o.Violations...)
	s.NViolations += o.NViolations
	s.Inconclusive = append(s.Inconclusive, o.Inconclusive...)
}

// Ctx is the context of one case.
type Ctx struct {
	Prop   string
	Tier   string
	Seed   int64
	Case   int
	NCases int
	R      *rand.Rand
	St     *Stats
	Verbose bool
	perCase int
}

// CaseRand derives the PRNG of a case from (seed, property, index).
func CaseRand(seed int64, prop string, idx int) *rand.Rand {
	h := fnv.New64a()
	fmt.Fprintf(h, "%d/%s/%d", seed, prop, idx)
	return rand.New(rand.NewSource(int64(h.Sum64())))
}

const maxViolationsKept = 40

// Violate records a violation. sig identifies the failing site for the
// known-findings list; what is the one-line description; detail the
// descriptor and the observed/expected values.
func (c *Ctx) Violate(sig, what, detail string) {
	c.St.NViolations++
	c.perCase++
	// keep the first of each signature, bounded
	for _, v := range c.St.Violations {
		if v.Sig == sig {
			c.St.Counters["dup-violations"]++
			return
		}
	}
	if len(c.St.Violations) >= maxViolationsKept {
		return
	}
	if len(detail) > 6000 {
		detail = detail[:6000] + "…"
	}
	c.St.Violations = append(c.St.Violations, Violation{Prop: c.Prop, Sig: sig, What: what, Case: c.Case, Detail: detail})
	if c.Verbose {
		fmt.Printf("  violation sig=%s\n    %s\n    %s\n", sig, what, detail)
	}
}

// Cover counts an observation in a coverage dimension.
func (c *Ctx) Cover(dim, key string) {
	m := c.St.Cover[dim]
	if m == nil {
		m = map[string]int{}
		c.St.Cover[dim] = m
	}
	m[key]++
}

// Count adds to a named counter (events per op etc.).
func (c *Ctx) Count(name string, n int) { c.St.Counters[name] += n }

// Nontrivial records a non-trivial case by its structure signature.
func (c *Ctx) Nontrivial(sig string) { c.St.Nontrivial[sig]++ }

// Sample keeps up to five sample cases verbatim.
func (c *Ctx) Sample(v interface{}) {
	if len(c.St.Samples) >= 5 {
		return
	}
	b, err := json.Marshal(v)
	if err != nil {
		b, _ = json.Marshal(fmt.Sprint(v))
	}
	c.St.Samples = append(c.St.Samples, b)
}

// Inconclusive records that the run cannot vouch for the property.
func (c *Ctx) Inconclusive(why string) { c.St.Inconclusive = append(c.St.Inconclusive, why) }

// SortedKeys of a count map.
func SortedKeys(m map[string]int) []string {
	out := make([]string, 0, len(m))
	for k := range m {
		out = append(out, k)
	}
	sort.Strings(out)
	return out
}

// Try runs f and converts a panic into a string.
func Try(f func()) (p interface{}) {
	defer func() {
		if r := recover(); r != nil {
			p = r
		}
	}()
	f()
	return nil
}
