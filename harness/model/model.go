// Package model is the shadow model: what an error built from a
// descriptor is expected to look like, computed compositionally from the
// descriptor and WITHOUT calling the library under test.
package model

import (
	"fmt"
	"path/filepath"
	"runtime"
	"sort"
	"strings"

	"google.golang.org/grpc/codes"

	"verifharness/gen"
)

const lib = "github.com/cockroachdb/errors/"

// Referral / standard hints (the documented texts).
const Referral = "\n\nPlease check the public issue tracker to check whether this problem is\nalready tracked. If you cannot find it there, please report the error\nwith details by creating a new issue.\n\nIf you would rather not post publicly, please contact us directly\nusing the support form.\n\nWe appreciate your feedback.\n"
const AssertHint = "You have encountered an unexpected error."
const UnimplHint = "You have attempted to use a feature that is not yet implemented."

// GenPkgDomain is the package domain of code in package gen.
var GenPkgDomain = func() string {
	_, f, _, _ := runtime.Caller(0)
	return "error domain: pkg " + filepath.Join(filepath.Dir(filepath.Dir(f)), "gen")
}()

// Layer is one Go-level error object of the expected chain.
type Layer struct {
	GoType string // %T
	Family string // type key (wire family name)
	Ext    string // mark extension

	Hint      string
	HasHint   bool
	Detail    string
	HasDetail bool
	Link      *[2]string
	Keys      []string
	Domain    string
	Tags      [][2]string
	Assert    bool
	Unimpl    bool
	IsLink    bool
	HTTP      int
	HasHTTP   bool
	GRPC      int
	HasGRPC   bool
	HasDomain bool   // a domain layer (the domain itself may be the empty string)
	StackFn   string // "" = no stack; else expected first-frame function
	Barrier   bool   // barrierErr layer (hides Node.Hidden[0])
	Secondary bool   // withSecondaryError layer
	Mark      bool   // withMark layer
	Hides     *gen.Node // for barrier / secondary layers: the descriptor of the error they hide

	Node *gen.Node // owning descriptor node
}

func L(goType, pkgPath string) Layer {
	return Layer{GoType: goType, Family: pkgPath + "/" + goType}
}

func libL(pkg, typ string) Layer {
	t := "*" + pkg + "." + typ
	return Layer{GoType: t, Family: lib + pkg + "/" + t}
}
func harnessL(typ string) Layer { return L(typ, "verifharness/gen") }

func withStack(fn string) Layer { l := libL("withstack", "withStack"); l.StackFn = fn; return l }

var (
	leafError  = libL("errutil", "leafError")
	withPrefix = libL("errutil", "withPrefix")
	barrierErr = func() Layer { l := libL("barriers", "barrierErr"); l.Barrier = true; return l }()
	secondaryL = func() Layer { l := libL("secondary", "withSecondaryError"); l.Secondary = true; return l }()
	assertL    = func() Layer {
		l := libL("assert", "withAssertionFailure")
		l.Assert, l.Hint, l.HasHint = true, AssertHint+Referral, true
		return l
	}()
	goErrorString = L("*errors.errorString", "errors")
)

func domainL(d string) Layer {
	l := libL("domains", "withDomain")
	l.Domain, l.Ext, l.HasDomain = d, d, true
	return l
}

func named(s string) string { return fmt.Sprintf("error domain: %q", s) }

func linkHint(url string) string {
	if url != "" {
		return "See: " + url
	}
	return Referral
}

// SentinelLayer describes the pool sentinels.
func sentinelLayers(i int) []Layer {
	switch i {
	case 1:
		return []Layer{L("context.deadlineExceededError", "context")}
	case 8: // UserSentinelA = errors.New
		return []Layer{withStack("verifharness/gen.init"), leafError}
	case 10:
		return []Layer{harnessL("*gen.NoFmtLeaf")}
	case 13:
		return []Layer{L("*poll.DeadlineExceededError", "internal/poll")}
	}
	return []Layer{goErrorString}
}

// OwnLayers expands a descriptor node into its own Go layers,
// outermost first (the kids' layers are not included).
func OwnLayers(n *gen.Node) []Layer {
	S := n.S
	st := func() Layer { return withStack(gen.BuildFn) }
	var out []Layer
	switch n.Kind {
	case "new", "newf", "errorf", "newf0", "emptynew":
		out = []Layer{st(), leafError}
	case "protoleaf":
		out = []Layer{libL("errorspb", "TestError")}
	case "rterr":
		out = []Layer{[]Layer{L("runtime.plainError", "runtime"), L("runtime.errorString", "runtime"), L("*runtime.TypeAssertionError", "runtime")}[n.N[0]]}
	case "unimplf":
		l := libL("issuelink", "unimplementedError")
		l.Unimpl = true
		h := UnimplHint
		if S[2] != "" {
			h += "\nSee: " + S[2]
		} else {
			h += Referral
		}
		l.Hint, l.HasHint = h, true
		l.Link = &[2]string{S[2], S[3]}
		out = []Layer{l}
	case "assertf":
		out = []Layer{assertL, st(), leafError}
	case "unimpl":
		l := libL("issuelink", "unimplementedError")
		l.Unimpl = true
		h := UnimplHint
		if S[1] != "" {
			h += "\nSee: " + S[1]
		} else {
			h += Referral
		}
		l.Hint, l.HasHint = h, true
		l.Link = &[2]string{S[1], S[2]}
		out = []Layer{l}
	case "unimpld":
		l := libL("issuelink", "unimplementedError")
		l.Unimpl = true
		l.Hint, l.HasHint = UnimplHint+Referral, true
		l.Link = &[2]string{"", S[1]}
		out = []Layer{l}
	case "domnew":
		out = []Layer{domainL(GenPkgDomain), goErrorString}
	case "gstatus", "gstatusf":
		g := libL("extgrpc", "withGrpcCode")
		g.GRPC, g.HasGRPC = n.N[0], true
		fn := "grpc/status.Error"
		if n.Kind == "gstatusf" {
			fn = "grpc/status.Errorf"
		}
		out = []Layer{g, withStack(lib + fn), leafError}
	case "oldfmtelide":
		out = []Layer{harnessL("*gen.OldFmtElideWrap")}
	case "safemsgwrap":
		out = []Layer{harnessL("*gen.SafeMsgWrap")}
	case "keymarkwrap":
		l := harnessL("*gen.KeyMarkWrap")
		l.Ext = gen.OneLine(S[1])
		out = []Layer{l}
	case "fmtargleaf":
		out = []Layer{harnessL("*gen.FmtArgLeaf")}
	case "protofailleaf":
		out = []Layer{harnessL("*gen.ProtoFailLeaf")}
	case "silentsafeleaf":
		out = []Layer{harnessL("*gen.SilentSafeLeaf")}
	case "domainraw":
		out = []Layer{domainL(gen.OneLine(S[0]))}
	case "withstackdeep":
		out = []Layer{withStack("")}
	case "goerr":
		out = []Layer{goErrorString}
	case "pkgnew":
		out = []Layer{L("*errors.fundamental", "github.com/pkg/errors")}
	case "sentinel":
		out = sentinelLayers(n.N[0])
	case "errno":
		out = []Layer{L("syscall.Errno", "syscall")}
	case "grpcerr":
		out = []Layer{L("*status.Error", "google.golang.org/grpc/internal/status")}
	case "gogoerr":
		out = []Layer{L("*status.statusError", "github.com/gogo/status")}
	case "nofmtleaf":
		out = []Layer{harnessL("*gen.NoFmtLeaf")}
	case "fmtleaf":
		out = []Layer{harnessL("*gen.FmtLeaf")}
	case "safefmtleaf":
		out = []Layer{harnessL("*gen.SafeFmtLeaf")}
	case "oldfmtleaf":
		out = []Layer{harnessL("*gen.OldFmtLeaf")}
	case "fmtrleaf":
		out = []Layer{harnessL("*gen.FmtrLeaf")}
	case "ncleaf":
		out = []Layer{harnessL("gen.NCLeaf")}
	case "isleaf":
		out = []Layer{harnessL("*gen.IsLeaf")}
	case "hdleaf", "hdwrap":
		l := harnessL("*gen.HDLeaf")
		if n.Kind == "hdwrap" {
			l = harnessL("*gen.HDWrap")
		}
		l.Hint, l.HasHint, l.Detail, l.HasDetail = S[1], true, S[2], true
		out = []Layer{l}
	case "ncwrap":
		out = []Layer{harnessL("gen.NCWrap")}
	case "domainnone":
		out = []Layer{domainL("error domain: <none>")}
	case "asleaf":
		out = []Layer{harnessL("*gen.AsLeaf")}
	case "stacksafeleaf":
		out = []Layer{harnessL("*gen.StackSafeLeaf")}
	case "lowleaf", "lowwrap":
		out = []Layer{harnessL("*gen.LOW")}
	case "wrap", "wrapf", "wrapf0", "wrapfempty":
		out = []Layer{st(), withPrefix}
	case "wrapempty", "withstack":
		out = []Layer{st()}
	case "withmsg", "withmsgf", "withmsgf0":
		out = []Layer{withPrefix}
	case "hint":
		l := libL("hintdetail", "withHint")
		l.Hint, l.HasHint = S[0], true
		out = []Layer{l}
	case "detail":
		l := libL("hintdetail", "withDetail")
		l.Detail, l.HasDetail = S[0], true
		out = []Layer{l}
	case "hintf":
		l := libL("hintdetail", "withHint")
		l.Hint, l.HasHint = S[0]+" "+S[1], true
		out = []Layer{l}
	case "detailf":
		l := libL("hintdetail", "withDetail")
		l.Detail, l.HasDetail = S[0]+" "+S[1], true
		out = []Layer{l}
	case "telemetry0":
		l := libL("telemetrykeys", "withTelemetry")
		l.Keys = []string{}
		out = []Layer{l}
	case "safedetails", "safedetails0":
		out = []Layer{libL("safedetails", "withSafeDetails")}
	case "telemetry":
		l := libL("telemetrykeys", "withTelemetry")
		l.Keys = S
		out = []Layer{l}
	case "domain":
		out = []Layer{domainL(named(S[0]))}
	case "issuelink":
		l := libL("issuelink", "withIssueLink")
		l.IsLink, l.Hint, l.HasHint = true, linkHint(S[0]), true
		l.Link = &[2]string{S[0], S[1]}
		out = []Layer{l}
	case "issuelinkd", "issuelinku":
		l := libL("issuelink", "withIssueLink")
		link := [2]string{"", S[0]}
		if n.Kind == "issuelinku" {
			link = [2]string{S[0], ""}
		}
		l.IsLink, l.Hint, l.HasHint = true, linkHint(link[0]), true
		l.Link = &link
		out = []Layer{l}
	case "tags":
		l := libL("contexttags", "withContext")
		l.Tags = [][2]string{{S[0], S[1]}, {"n", fmt.Sprint(n.N[0])}}
		out = []Layer{l}
	case "tagsafe":
		l := libL("contexttags", "withContext")
		l.Tags = [][2]string{{S[0], S[1]}, {"nilv", ""}, {"n", fmt.Sprint(n.N[0])}}
		out = []Layer{l}
	case "assertion":
		out = []Layer{assertL}
	case "http":
		l := libL("exthttp", "withHTTPCode")
		l.HTTP, l.HasHTTP = n.N[0], true
		out = []Layer{l}
	case "grpc":
		l := libL("extgrpc", "withGrpcCode")
		l.GRPC, l.HasGRPC = n.N[0], true
		out = []Layer{l}
	case "newfw":
		out = []Layer{st(), secondaryL, libL("errutil", "withNewMessage")}
	case "gstatuswrap":
		g := libL("extgrpc", "withGrpcCode")
		g.GRPC, g.HasGRPC = n.N[0], true
		out = []Layer{g, st(), withPrefix}
	case "goerrorf", "goerrorfsfx":
		out = []Layer{L("*fmt.wrapError", "fmt")}
	case "pkgmsg":
		out = []Layer{L("*errors.withMessage", "github.com/pkg/errors")}
	case "pkgstack":
		out = []Layer{L("*errors.withStack", "github.com/pkg/errors")}
	case "pkgwrap":
		out = []Layer{L("*errors.withStack", "github.com/pkg/errors"), L("*errors.withMessage", "github.com/pkg/errors")}
	case "patherr":
		out = []Layer{{GoType: "*fs.PathError", Family: "os/*os.PathError"}}
	case "linkerr":
		out = []Layer{L("*os.LinkError", "os")}
	case "syscallerr":
		out = []Layer{L("*os.SyscallError", "os")}
	case "operr", "operrsrc", "operrboth", "operrnone":
		out = []Layer{L("*net.OpError", "net")}
	case "aswrap":
		out = []Layer{harnessL("*gen.AsWrap")}
	case "nofmtwrap":
		out = []Layer{harnessL("*gen.NoFmtWrap")}
	case "causewrap":
		out = []Layer{harnessL("*gen.CauseWrap")}
	case "fmtwrap":
		out = []Layer{harnessL("*gen.FmtWrap")}
	case "safefmtwrap":
		out = []Layer{harnessL("*gen.SafeFmtWrap")}
	case "emptywrap":
		out = []Layer{harnessL("*gen.EmptyWrap")}
	case "oldfmtwrap":
		out = []Layer{harnessL("*gen.OldFmtWrap")}
	case "fmtrwrap":
		out = []Layer{harnessL("*gen.FmtrWrap")}
	case "elidewrap":
		out = []Layer{harnessL("*gen.ElideWrap")}
	case "handled", "handledmsg", "handledmsgf", "handledmsgf0", "handledmsgempty", "opaque":
		out = []Layer{barrierErr}
	case "handleddomain", "handleddommsg":
		out = []Layer{domainL(named(S[0])), barrierErr}
	case "domhandled":
		out = []Layer{domainL(GenPkgDomain), barrierErr}
	case "handleassert":
		out = []Layer{assertL, st(), barrierErr}
	case "assertwrap":
		out = []Layer{assertL, st(), withPrefix, barrierErr}
	case "newfe":
		out = []Layer{st(), secondaryL, leafError}
	case "mark", "markempty":
		l := libL("markers", "withMark")
		l.Mark = true
		out = []Layer{l}
	case "secondary", "combine":
		out = []Layer{secondaryL}
	case "newfwe", "newfew":
		out = []Layer{st(), secondaryL, secondaryL, libL("errutil", "withNewMessage")}
	case "wrapfe":
		out = []Layer{st(), secondaryL, withPrefix}
	case "join":
		out = []Layer{st(), libL("join", "joinError")}
	case "joinbare":
		out = []Layer{libL("join", "joinError")}
	case "multiis":
		out = []Layer{harnessL("*gen.MultiIs")}
	case "gojoin":
		out = []Layer{L("*errors.joinError", "errors")}
	case "goerrorfmulti":
		out = []Layer{L("*fmt.wrapErrors", "fmt")}
	case "multinofmt":
		out = []Layer{harnessL("*gen.MultiNoFmt")}
	case "multireg":
		out = []Layer{harnessL("*gen.MultiReg")}
	default:
		panic("model.OwnLayers: unknown kind " + n.Kind)
	}
	nsec := 0
	for i := range out {
		out[i].Node = n
		if out[i].Barrier || out[i].Secondary {
			switch {
			case n.Kind == "newfw":
				out[i].Hides = n.Kids[0] // the %w argument is also recorded as a secondary error
			case n.Kind == "newfwe" && nsec == 1:
				out[i].Hides = n.Kids[0]
			case n.Kind == "newfew" && nsec == 0:
				out[i].Hides = n.Kids[0] // error arguments are attached in order: the outermost secondary is the last argument
			case len(n.Hidden) > 0:
				out[i].Hides = n.Hidden[0]
			}
			nsec++
		}
	}
	return out
}

func grpcText(code int, msg string) string {
	return fmt.Sprintf("rpc error: code = %s desc = %s", codes.Code(code), msg)
}

// Text is the expected Error() of the node.
func Text(n *gen.Node) string {
	S := n.S
	k := func(i int) string { return Text(n.Kids[i]) }
	h := func(i int) string { return Text(n.Hidden[i]) }
	pfx := func(p string) string {
		if p == "" {
			return k(0)
		}
		return p + ": " + k(0)
	}
	switch n.Kind {
	case "protoleaf":
		return "test error"
	case "rterr":
		return gen.RuntimeErrors[n.N[0]].Error()
	case "errorf":
		return S[1] + " " + S[0] + " " + S[2]
	case "newf0", "handledmsgf0":
		return S[0] + " 100%"
	case "wrapf0", "withmsgf0":
		return S[0] + " 100%: " + k(0)
	case "unimplf", "handledmsgf":
		return S[0] + " " + S[1]
	case "newfwe":
		return S[0] + " " + k(0) + " " + S[1] + " " + h(0)
	case "newfew":
		return S[0] + " " + h(0) + " " + S[1] + " " + k(0)
	case "goerr", "new", "pkgnew", "nofmtleaf", "fmtleaf", "unimpl", "domnew", "gstatus",
		"oldfmtleaf", "fmtrleaf", "ncleaf", "isleaf", "hdleaf", "protofailleaf", "silentsafeleaf", "lowleaf", "asleaf", "stacksafeleaf", "elidewrap", "handledmsg", "unimpld", "oldfmtelide", "safemsgwrap":
		return S[0]
	case "newf":
		return S[1] + " " + S[0] + " " + S[2]
	case "assertf", "gstatusf":
		return S[0] + " " + S[1]
	case "sentinel":
		return gen.Sentinels[n.N[0]].Error()
	case "errno":
		return gen.Errnos[n.N[0]].Error()
	case "grpcerr", "gogoerr":
		return grpcText(n.N[0], S[0])
	case "safefmtleaf":
		return "safe " + S[0]
	case "wrap", "withmsg", "gstatuswrap":
		return pfx(S[0])
	case "pkgmsg", "nofmtwrap", "aswrap", "fmtwrap", "goerrorf", "pkgwrap", "causewrap", "oldfmtwrap", "fmtrwrap",
		"lowwrap", "syscallerr", "hdwrap", "ncwrap", "keymarkwrap":
		return S[0] + ": " + k(0)
	case "wrapf", "withmsgf":
		return S[0] + " " + S[1] + ": " + k(0)
	case "safefmtwrap":
		return "safe " + S[0] + ": " + k(0)
	case "withstack", "hint", "detail", "safedetails", "safedetails0", "telemetry", "domain", "issuelink", "tags", "tagsafe",
		"assertion", "mark", "markempty", "secondary", "http", "grpc", "pkgstack", "emptywrap", "wrapempty",
		"hintf", "detailf", "telemetry0", "combine", "issuelinkd", "issuelinku", "domainnone", "domainraw", "withstackdeep", "wrapfempty":
		return k(0)
	case "newfw":
		return S[0] + " " + k(0) + " " + S[1]
	case "handled", "handleddomain", "handleassert", "domhandled", "opaque":
		return h(0)
	case "handleddommsg":
		return S[1]
	case "assertwrap":
		return S[0] + " " + S[1] + ": " + h(0)
	case "newfe":
		return S[0] + " " + h(0)
	case "wrapfe":
		return S[0] + " " + h(0) + ": " + k(0)
	case "goerrorfsfx":
		return k(0) + " - " + S[0]
	case "patherr":
		return S[0] + " " + S[1] + ": " + k(0)
	case "linkerr":
		return S[0] + " " + S[1] + " " + S[2] + ": " + k(0)
	case "operr", "operrsrc":
		return S[0] + " tcp " + S[1] + ": " + k(0)
	case "operrboth":
		return S[0] + " tcp " + S[1] + "->" + S[2] + ": " + k(0)
	case "operrnone":
		return S[0] + " tcp: " + k(0)
	case "emptynew", "handledmsgempty":
		return ""
	case "fmtargleaf":
		return S[0] + " [" + S[1] + "]"
	case "join", "gojoin", "joinbare":
		parts := make([]string, len(n.Kids))
		for i := range n.Kids {
			parts[i] = k(i)
		}
		return strings.Join(parts, "\n")
	case "goerrorfmulti":
		if len(n.N) > 0 && n.N[0] == 1 {
			return k(0) + " + " + k(1) + ": " + S[0]
		}
		return S[0] + ": " + k(0) + " + " + k(1)
	case "multinofmt":
		r := S[0]
		for i := range n.Kids {
			r += " / " + k(i)
		}
		return r
	case "multiis":
		r := S[0]
		for i := range n.Kids {
			r += " & " + k(i)
		}
		return r
	case "multireg":
		r := S[0]
		for i := range n.Kids {
			r += " | " + k(i)
		}
		return r
	}
	panic("model.Text: unknown kind " + n.Kind)
}

// IsMulti reports whether the node's innermost own layer has several causes.
func IsMulti(n *gen.Node) bool { return gen.Specs[n.Kind].Class == gen.Multi }

// Chain returns the layers of the visible single-cause chain starting
// at n, outermost first. The chain ends at a leaf, a barrier or a
// multi-cause layer (inclusive).
func Chain(n *gen.Node) []Layer {
	out := OwnLayers(n)
	if len(n.Kids) == 1 && !IsMulti(n) {
		out = append(out, Chain(n.Kids[0])...)
	}
	return out
}

// VLayer is a layer of the visible tree with its position.
type VLayer struct {
	Layer
	Depth  int    // multi-cause nesting depth
	Text   string // expected Error() of the Go object at this layer
	Parent int    // index (in the same list) of the layer this one is a cause of; -1 for the root
}

// LayerText gives the expected Error() of each own layer of n.
func layerTexts(n *gen.Node, ls []Layer) []string {
	full := Text(n)
	out := make([]string, len(ls))
	for i := range out {
		out[i] = full
	}
	// Layers below a prefix layer lose the prefix.
	switch n.Kind {
	case "assertwrap":
		out[3] = Text(n.Hidden[0])
	case "pkgwrap":
		// withStack, withMessage: both carry the full text.
	}
	return out
}

// Visible returns all layers of the visible tree in pre-order
// (a layer, then its causes in order).
func Visible(n *gen.Node) []VLayer {
	var out []VLayer
	var rec func(n *gen.Node, depth int)
	rec = func(n *gen.Node, depth int) {
		ls := OwnLayers(n)
		ts := layerTexts(n, ls)
		for i, l := range ls {
			out = append(out, VLayer{Layer: l, Depth: depth, Text: ts[i]})
		}
		d := depth
		if IsMulti(n) {
			d++
		}
		for _, k := range n.Kids {
			rec(k, d)
		}
	}
	rec(n, 0)
	return out
}

// TM is a (family, extension) type mark.
type TM struct{ Family, Ext string }

// MarkT is the network identity of an error.
type MarkT struct {
	Msg   string
	Types []TM
}

func (a MarkT) Equal(b MarkT) bool {
	if a.Msg != b.Msg || len(a.Types) != len(b.Types) {
		return false
	}
	for i := range a.Types {
		if a.Types[i] != b.Types[i] {
			return false
		}
	}
	return true
}

// LayerMark is the mark of the Go object at own-layer index li of n.
func LayerMark(n *gen.Node, li int) MarkT {
	ls := OwnLayers(n)
	if ls[li].Mark {
		return LayerMark(n.Hidden[0], 0)
	}
	m := MarkT{Msg: layerTexts(n, ls)[li]}
	ch := Chain(n)[li:]
	for _, l := range ch {
		m.Types = append(m.Types, TM{l.Family, l.Ext})
	}
	return m
}

// Mark of the outermost object of the node.
func Mark(n *gen.Node) MarkT { return LayerMark(n, 0) }

// Annot is the model of the annotation accessors over the visible
// single-cause chain.
type Annot struct {
	Hints, Details []string
	Links          [][2]string
	Keys           []string
	Domain         string
	Tags           []string // one entry per tag layer, outermost first: "k=v,k=v"
	HasAssert      bool
	IsAssert       bool
	HasUnimpl      bool
	IsUnimpl       bool
	HasLink        bool
	IsLink         bool
	HTTP, GRPC     int
}

// Annotations computes the accessor model for the error built from n.
func Annotations(n *gen.Node) Annot {
	ls := Chain(n)
	o := Annot{Domain: "error domain: <none>", HTTP: -1, GRPC: 2}
	seen := map[string]bool{}
	for i := len(ls) - 1; i >= 0; i-- {
		l := ls[i]
		if l.HasHint && l.Hint != "" && !seen[l.Hint] {
			seen[l.Hint] = true
			o.Hints = append(o.Hints, l.Hint)
		}
		if l.HasDetail && l.Detail != "" {
			o.Details = append(o.Details, l.Detail)
		}
	}
	ks := map[string]bool{}
	gotDomain, gotHTTP, gotGRPC := false, false, false
	for i, l := range ls {
		if l.Link != nil {
			o.Links = append(o.Links, *l.Link)
		}
		for _, k := range l.Keys {
			ks[k] = true
		}
		if l.HasDomain && !gotDomain {
			o.Domain, gotDomain = l.Domain, true
		}
		if l.Tags != nil {
			var s []string
			for _, t := range l.Tags {
				s = append(s, t[0]+"="+t[1])
			}
			o.Tags = append(o.Tags, strings.Join(s, ","))
		}
		o.HasAssert = o.HasAssert || l.Assert
		o.HasLink = o.HasLink || l.IsLink
		if i == 0 {
			o.IsAssert, o.IsLink, o.IsUnimpl = l.Assert, l.IsLink, l.Unimpl
		}
		if l.HasHTTP && !gotHTTP {
			o.HTTP, gotHTTP = l.HTTP, true
		}
		if l.HasGRPC && !gotGRPC {
			o.GRPC, gotGRPC = l.GRPC, true
		}
	}
	if len(ls) > 0 && ls[len(ls)-1].Unimpl {
		o.HasUnimpl = true
	}
	for k := range ks {
		o.Keys = append(o.Keys, k)
	}
	sort.Strings(o.Keys)
	return o
}

// Tok is a token with its provenance.
type Tok struct {
	Token  string
	Kind   string // owning kind
	Idx    int    // index in S
	Hidden bool   // owner sits in a hidden sub-tree
	InMark bool   // owner sits inside a Mark reference
}

// Taint lists the unsafe and the declared-safe tokens of a tree.
func Taint(n *gen.Node) (unsafe, safe []Tok) {
	var rec func(n *gen.Node, hid, inMark bool)
	rec = func(n *gen.Node, hid, inMark bool) {
		sp := gen.Specs[n.Kind]
		for _, i := range sp.Unsafe {
			if t := gen.TokenOf(n.S[i]); t != "" {
				unsafe = append(unsafe, Tok{t, n.Kind, i, hid, inMark})
			}
		}
		for _, i := range sp.Safe {
			if t := gen.TokenOf(n.S[i]); t != "" {
				safe = append(safe, Tok{t, n.Kind, i, hid, inMark})
			}
		}
		for _, k := range n.Kids {
			rec(k, hid, inMark)
		}
		for _, k := range n.Hidden {
			rec(k, true, inMark || n.Kind == "mark" || n.Kind == "markempty")
		}
	}
	rec(n, false, false)
	return
}

// Display returns the visible layers in the order %+v numbers them:
// a layer, then its causes — the branches of a multi-cause layer in
// reverse order. Depth is the multi-cause nesting depth.
func Display(n *gen.Node) []VLayer {
	var out []VLayer
	var rec func(n *gen.Node, depth, parent int)
	rec = func(n *gen.Node, depth, parent int) {
		ls := OwnLayers(n)
		ts := layerTexts(n, ls)
		for i, l := range ls {
			out = append(out, VLayer{Layer: l, Depth: depth, Text: ts[i], Parent: parent})
			parent = len(out) - 1
		}
		if IsMulti(n) {
			for i := len(n.Kids) - 1; i >= 0; i-- {
				rec(n.Kids[i], depth+1, parent)
			}
			return
		}
		for _, k := range n.Kids {
			rec(k, depth, parent)
		}
	}
	rec(n, 0, -1)
	return out
}

// IsLib reports whether a layer is one of the library's own types.
func (l Layer) IsLib() bool {
	// errorspb.TestError is a protobuf message "meant for use in testing only"; it has no Format method.
	return strings.HasPrefix(l.Family, lib) && !strings.HasSuffix(l.Family, "errorspb.TestError")
}
