// Package obs records what is observable about a live error through
// the library's public API.
package obs

import (
	"encoding/json"
	"fmt"
	"sort"
	"strings"

	"github.com/cockroachdb/errors"
	"github.com/cockroachdb/errors/errbase"
	"github.com/cockroachdb/errors/errorspb"
	"github.com/cockroachdb/errors/extgrpc"
	"github.com/cockroachdb/errors/exthttp"
	"github.com/cockroachdb/errors/oserror"
	"github.com/cockroachdb/errors/report"
	"github.com/cockroachdb/redact"
	"github.com/gogo/protobuf/types"

	"verifharness/sim"
)

// Kids returns the visible causes of e (single cause first, then
// multi-causes).
func Kids(e error) []error {
	var out []error
	if c := errors.UnwrapOnce(e); c != nil {
		out = append(out, c)
	}
	out = append(out, errbase.UnwrapMulti(e)...)
	return out
}

// Nodes lists the visible tree in pre-order.
func Nodes(e error) []error {
	var out []error
	var rec func(e error)
	rec = func(e error) {
		out = append(out, e)
		for _, k := range Kids(e) {
			rec(k)
		}
	}
	rec(e)
	return out
}

// Shape is the visible cause tree with the text of every node.
type Shape struct {
	Text string
	Type string
	Key  string
	Kids []Shape
}

func ShapeOf(e error) Shape {
	s := Shape{Text: e.Error(), Type: fmt.Sprintf("%T", e), Key: string(errors.GetTypeKey(e))}
	for _, k := range Kids(e) {
		s.Kids = append(s.Kids, ShapeOf(k))
	}
	return s
}

// Diff compares two shapes (texts and arity only). It returns "" when
// equal, else a description and the type key (from a) of the innermost
// node whose sub-trees agree but whose own text/arity differs.
func Diff(a, b Shape) (desc string, owner string) {
	desc, owner, _, _ = Diff4(a, b)
	return
}

// Diff4 is Diff that also returns the two texts of the owner node.
func Diff4(a, b Shape) (desc string, owner string, ta, tb string) {
	var rec func(a, b Shape, path string) bool
	rec = func(a, b Shape, path string) bool {
		if len(a.Kids) != len(b.Kids) {
			if desc == "" {
				desc = fmt.Sprintf("%s: arity %d vs %d (types %s / %s)", path, len(a.Kids), len(b.Kids), a.Type, b.Type)
				owner, ta, tb = a.Key, a.Text, b.Text
			}
			return false
		}
		ok := true
		for i := range a.Kids {
			if !rec(a.Kids[i], b.Kids[i], fmt.Sprintf("%s.%d", path, i)) {
				ok = false
			}
		}
		if ok && a.Text != b.Text {
			if desc == "" {
				desc = fmt.Sprintf("%s: text %q vs %q (types %s / %s)", path, a.Text, b.Text, a.Type, b.Type)
				owner, ta, tb = a.Key, a.Text, b.Text
			}
			return false
		}
		return ok
	}
	rec(a, b, "root")
	return
}

// Rec is a flat observation record: accessor name -> rendering.
type Rec map[string]string

// DiffRec lists the keys on which a and b differ (sorted); skip filters.
func DiffRec(a, b Rec, skip func(key string) bool) []string {
	var out []string
	seen := map[string]bool{}
	for k, v := range a {
		seen[k] = true
		if skip != nil && skip(k) {
			continue
		}
		if w, ok := b[k]; !ok || v != w {
			out = append(out, k)
		}
	}
	for k := range b {
		if !seen[k] && (skip == nil || !skip(k)) {
			out = append(out, k)
		}
	}
	sort.Strings(out)
	return out
}

func jsn(v interface{}) string {
	b, err := json.Marshal(v)
	if err != nil {
		return fmt.Sprintf("%#v", v)
	}
	return string(b)
}

// TagsOf renders the context tags, one string per buffer, outermost first.
func TagsOf(e error) []string {
	var tags []string
	for _, b := range errors.GetContextTags(e) {
		var s []string
		for _, t := range b.Get() {
			s = append(s, t.Key()+"="+t.ValueStr())
		}
		tags = append(tags, strings.Join(s, ","))
	}
	return tags
}

// Annotations observes every annotation accessor on e.
func Annotations(e error) Rec {
	o := Rec{}
	o["hints"] = jsn(errors.GetAllHints(e))
	o["flathints"] = errors.FlattenHints(e)
	o["details"] = jsn(errors.GetAllDetails(e))
	o["flatdetails"] = errors.FlattenDetails(e)
	o["links"] = jsn(errors.GetAllIssueLinks(e))
	k := errors.GetTelemetryKeys(e)
	sort.Strings(k)
	if len(k) == 0 {
		k = nil
	}
	o["keys"] = jsn(k)
	o["domain"] = string(errors.GetDomain(e))
	o["tags"] = jsn(TagsOf(e))
	o["flags"] = fmt.Sprint(errors.HasAssertionFailure(e), errors.IsAssertionFailure(e), errors.HasUnimplementedError(e),
		errors.IsUnimplementedError(e), errors.HasIssueLink(e), errors.IsIssueLink(e))
	o["http"] = fmt.Sprint(exthttp.GetHTTPCode(e, -1))
	o["grpc"] = fmt.Sprint(extgrpc.GetGrpcCode(e))
	o["os"] = fmt.Sprint(oserror.IsPermission(e), oserror.IsExist(e), oserror.IsNotExist(e), oserror.IsTimeout(e))
	f, l, fn, ok := errors.GetOneLineSource(e)
	o["source"] = fmt.Sprint(f, l, fn, ok)
	// the predicates derived from the domain
	d := errors.GetDomain(e)
	kept := errors.EnsureNotInDomain(e, func(errors.Domain, error) error { return errNeverDomain }, neverDomain) != errNeverDomain
	moved := errors.EnsureNotInDomain(e, func(od errors.Domain, err error) error { return errors.HandledInDomain(err, neverDomain) }, d, neverDomain)
	o["notindomain"] = fmt.Sprint(errors.NotInDomain(e, d), errors.NotInDomain(e, neverDomain, d), errors.NotInDomain(e, neverDomain), errors.NotInDomain(e), kept,
		moved != nil && errors.GetDomain(moved) == neverDomain)
	// Temporary(), where the root cause has an opinion
	if t, ok := errors.UnwrapAll(e).(interface{ Temporary() bool }); ok {
		o["os"] += fmt.Sprint(" temporary=", t.Temporary())
	}
	return o
}

var neverDomain = errors.NamedDomain("a domain no generated error is in")
var errNeverDomain = errors.New("EnsureNotInDomain called its constructor for an error that is not in a forbidden domain")

// IsHidingFamily: layers whose safe details embed a rendering of a hidden error.
func IsHidingFamily(fam string) bool {
	return strings.HasSuffix(fam, "barriers/*barriers.barrierErr") || strings.HasSuffix(fam, "secondary/*secondary.withSecondaryError")
}

// StackOf renders the reportable stack of one node ("-" if none).
func StackOf(c error) string {
	st := errors.GetReportableStackTrace(c)
	if st == nil {
		return "-"
	}
	var fr []string
	for _, f := range st.Frames {
		fr = append(fr, fmt.Sprintf("%s|%s|%s|%s|%d", f.Module, f.Function, f.Filename, f.AbsPath, f.Lineno))
	}
	return strings.Join(fr, ";")
}

// PerNode observes per-layer safe details (masked for barrier and
// secondary layers) and stacks over the visible tree.
func PerNode(e error) Rec {
	o := Rec{}
	for i, c := range Nodes(e) {
		sd := errors.GetSafeDetails(c)
		key := fmt.Sprintf("node%03d", i)
		o[key+".type"] = sd.OriginalTypeName + "|" + sd.ErrorTypeMark.FamilyName + "|" + sd.ErrorTypeMark.Extension
		if IsHidingFamily(sd.ErrorTypeMark.FamilyName) {
			o[key+".safedetails"] = "(masked)"
		} else {
			o[key+".safedetails"] = jsn(sd.SafeDetails)
		}
		o[key+".stack"] = StackOf(c)
		if st := errors.GetReportableStackTrace(c); st != nil {
			o[key+".stackprint"] = report.PrintStackTrace(st)
		}
	}
	return o
}

// Full is the complete record used for differential comparisons
// (C04 final observer, C11, C20).
func Full(e error) Rec {
	o := Annotations(e)
	for k, v := range PerNode(e) {
		o[k] = v
	}
	o["text"] = e.Error()
	o["shape"] = jsn(shapeTexts(ShapeOf(e)))
	o["fmt%+v"] = fmt.Sprintf("%+v", errors.Formattable(e))
	o["fmt%v"] = fmt.Sprintf("%v", errors.Formattable(e))
	return o
}

type st struct {
	T string
	K []st `json:",omitempty"`
}

func shapeTexts(s Shape) st {
	o := st{T: s.Text}
	for _, k := range s.Kids {
		o.K = append(o.K, shapeTexts(k))
	}
	return o
}

// CollectWire gathers every string of the message that is declared
// PII-free: reportable payloads, type names, extensions (deep).
func CollectWire(enc *errorspb.EncodedError) []string {
	var out []string
	var rec func(enc *errorspb.EncodedError)
	rec = func(enc *errorspb.EncodedError) {
		var d *errorspb.EncodedErrorDetails
		if w := enc.GetWrapper(); w != nil {
			d = &w.Details
			rec(&w.Cause)
		} else if l := enc.GetLeaf(); l != nil {
			d = &l.Details
			for _, c := range l.MultierrorCauses {
				rec(c)
			}
		} else {
			return
		}
		out = append(out, d.ReportablePayload...)
		out = append(out, d.OriginalTypeName, d.ErrorTypeMark.FamilyName, d.ErrorTypeMark.Extension)
		if d.FullDetails != nil {
			var da types.DynamicAny
			if err := types.UnmarshalAny(d.FullDetails, &da); err == nil {
				if ne, ok := da.Message.(*errorspb.EncodedError); ok {
					rec(ne)
				}
			}
		}
	}
	rec(enc)
	return out
}

// SentryText serialises the whole Sentry event and the extras.
func SentryText(e error) (event string, extras string, msg string) {
	ev, extra := errors.BuildSentryReport(e)
	if ev == nil {
		return "", "", ""
	}
	b, _ := json.Marshal(ev)
	keys := make([]string, 0, len(extra))
	for k := range extra {
		keys = append(keys, k)
	}
	sort.Strings(keys)
	var sb strings.Builder
	for _, k := range keys {
		fmt.Fprintf(&sb, "%s=%v\x01", k, extra[k])
	}
	return string(b), sb.String(), ev.Message
}

// PIIFree collects every output the library declares PII-free.
func PIIFree(e error) Rec {
	out := Rec{}
	out["redact%v"] = string(redact.Sprint(e).Redact())
	out["redact%s"] = string(redact.Sprintf("%s", e).Redact())
	out["redact%+v"] = string(redact.Sprintf("%+v", e).Redact())
	out["safedetails.Redact"] = errors.Redact(e)
	var sd []string
	for _, c := range Nodes(e) {
		p := errors.GetSafeDetails(c)
		sd = append(sd, p.SafeDetails...)
		sd = append(sd, p.OriginalTypeName, p.ErrorTypeMark.FamilyName, p.ErrorTypeMark.Extension)
	}
	out["safedetails"] = strings.Join(sd, "\x01")
	var asd []string
	for _, p := range errors.GetAllSafeDetails(e) {
		asd = append(asd, p.SafeDetails...)
		asd = append(asd, p.OriginalTypeName, p.ErrorTypeMark.FamilyName, p.ErrorTypeMark.Extension)
	}
	out["allsafedetails"] = strings.Join(asd, "\x01")
	enc := errors.EncodeError(sim.Ctx, e)
	out["wire-reportable"] = strings.Join(CollectWire(&enc), "\x01")
	ev, ex, _ := SentryText(e)
	out["sentry-event"] = ev
	out["sentry-extras"] = ex
	return out
}
