// Package mig holds the types of successive code versions for C17.
package mig

// Leaf types (value receivers) of successive versions: A renamed to B, C, D.
type LA struct{}
type LB struct{}
type LC struct{}
type LD struct{}

func (LA) Error() string { return "the-msg" }
func (LB) Error() string { return "the-msg" }
func (LC) Error() string { return "the-msg" }
func (LD) Error() string { return "the-msg" }

// LP moved here from verifharness/migold (package name and type name unchanged).
type LP struct{}

func (LP) Error() string { return "the-msg" }

// Wrapper types (pointer receivers).
type WA struct{ C error }
type WB struct{ C error }
type WC struct{ C error }
type WD struct{ C error }

func (w *WA) Error() string { return "w: " + w.C.Error() }
func (w *WB) Error() string { return "w: " + w.C.Error() }
func (w *WC) Error() string { return "w: " + w.C.Error() }
func (w *WD) Error() string { return "w: " + w.C.Error() }
func (w *WA) Unwrap() error { return w.C }
func (w *WB) Unwrap() error { return w.C }
func (w *WC) Unwrap() error { return w.C }
func (w *WD) Unwrap() error { return w.C }

// Pkg is this package's import path.
const Pkg = "verifharness/mig"
