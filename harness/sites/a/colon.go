package a

import (
	"github.com/cockroachdb/errors"

	. "verifharness/sites/common"
)

// The functions below pretend to live in a source file whose PATH CONTAINS A
// COLON (a Windows build, generated code with a //line directive): the printed
// stack "<file>:<line>" must be split at the last colon.

//line C:/src/app/gen.go:4242
func colonNew(d int, tr *[]Frame) R { r := R{Err: errors.NewWithDepth(d, "x")}; *tr = append(*tr, Here()); return r }

//line C:/src/app/gen.go:5151
func colonWrap(d int, tr *[]Frame) R { r := R{Err: errors.WrapWithDepth(d, leaf, "x")}; *tr = append(*tr, Here()); return r }
