package a

import (
	goErr "errors"

	"github.com/cockroachdb/errors"
	"github.com/cockroachdb/errors/domains"
	"github.com/cockroachdb/errors/errutil"
	"github.com/cockroachdb/errors/withstack"

	. "verifharness/sites/common"
)

var leaf = goErr.New("leaf")

// Hop is a non-inlinable helper. Each branch sits on ONE source line so
// that the recorded line is the line of the call.
//
//go:noinline
func Hop(chain []HopFn, f Fn, d int, tr *[]Frame) (r R) {
	if len(chain) == 0 { r = f(d, tr); *tr = append(*tr, Here()); return }
	r = chain[0](chain[1:], f, d, tr); *tr = append(*tr, Here()); return
}

// Table enumerates every exported stack-capturing or domain-computing
// function. Each closure body sits on ONE source line: Here() records
// the line of the library call.
var Table = []Entry{
	{"errors.New", false, false, true, func(d int, tr *[]Frame) R { r := R{Err: errors.New("x")}; *tr = append(*tr, Here()); return r }},
	{"errors.Newf", false, false, true, func(d int, tr *[]Frame) R { r := R{Err: errors.Newf("x %d", 1)}; *tr = append(*tr, Here()); return r }},
	{"errors.Errorf", false, false, true, func(d int, tr *[]Frame) R { r := R{Err: errors.Errorf("x %d", 1)}; *tr = append(*tr, Here()); return r }},
	{"errors.NewWithDepth", true, false, true, func(d int, tr *[]Frame) R { r := R{Err: errors.NewWithDepth(d, "x")}; *tr = append(*tr, Here()); return r }},
	{"errors.NewWithDepthf", true, false, true, func(d int, tr *[]Frame) R { r := R{Err: errors.NewWithDepthf(d, "x %d", 1)}; *tr = append(*tr, Here()); return r }},
	{"errors.Newf%w", false, false, true, func(d int, tr *[]Frame) R { r := R{Err: errors.Newf("x %w", leaf)}; *tr = append(*tr, Here()); return r }},
	{"errors.Wrap", false, false, true, func(d int, tr *[]Frame) R { r := R{Err: errors.Wrap(leaf, "x")}; *tr = append(*tr, Here()); return r }},
	{"errors.Wrapf", false, false, true, func(d int, tr *[]Frame) R { r := R{Err: errors.Wrapf(leaf, "x %d", 1)}; *tr = append(*tr, Here()); return r }},
	{"errors.WrapWithDepth", true, false, true, func(d int, tr *[]Frame) R { r := R{Err: errors.WrapWithDepth(d, leaf, "x")}; *tr = append(*tr, Here()); return r }},
	{"errors.WrapWithDepthf", true, false, true, func(d int, tr *[]Frame) R { r := R{Err: errors.WrapWithDepthf(d, leaf, "x %d", 1)}; *tr = append(*tr, Here()); return r }},
	{"errors.WithStack", false, false, true, func(d int, tr *[]Frame) R { r := R{Err: errors.WithStack(leaf)}; *tr = append(*tr, Here()); return r }},
	{"errors.WithStackDepth", true, false, true, func(d int, tr *[]Frame) R { r := R{Err: errors.WithStackDepth(leaf, d)}; *tr = append(*tr, Here()); return r }},
	{"errors.AssertionFailedf", false, false, true, func(d int, tr *[]Frame) R { r := R{Err: errors.AssertionFailedf("x %d", 1)}; *tr = append(*tr, Here()); return r }},
	{"errors.AssertionFailedWithDepthf", true, false, true, func(d int, tr *[]Frame) R { r := R{Err: errors.AssertionFailedWithDepthf(d, "x %d", 1)}; *tr = append(*tr, Here()); return r }},
	{"errors.NewAssertionErrorWithWrappedErrf", false, false, true, func(d int, tr *[]Frame) R { r := R{Err: errors.NewAssertionErrorWithWrappedErrf(leaf, "x %d", 1)}; *tr = append(*tr, Here()); return r }},
	{"errors.HandleAsAssertionFailure", false, false, true, func(d int, tr *[]Frame) R { r := R{Err: errors.HandleAsAssertionFailure(leaf)}; *tr = append(*tr, Here()); return r }},
	{"errors.HandleAsAssertionFailureDepth", true, false, true, func(d int, tr *[]Frame) R { r := R{Err: errors.HandleAsAssertionFailureDepth(d, leaf)}; *tr = append(*tr, Here()); return r }},
	{"errors.Join", false, false, true, func(d int, tr *[]Frame) R { r := R{Err: errors.Join(leaf, leaf)}; *tr = append(*tr, Here()); return r }},
	{"errors.JoinWithDepth", true, false, true, func(d int, tr *[]Frame) R { r := R{Err: errors.JoinWithDepth(d, leaf, leaf)}; *tr = append(*tr, Here()); return r }},
	{"errors.PackageDomain", false, true, false, func(d int, tr *[]Frame) R { r := R{Dom: errors.PackageDomain()}; *tr = append(*tr, Here()); return r }},
	{"errors.PackageDomainAtDepth", true, true, false, func(d int, tr *[]Frame) R { r := R{Dom: errors.PackageDomainAtDepth(d)}; *tr = append(*tr, Here()); return r }},
	{"errutil.New", false, false, true, func(d int, tr *[]Frame) R { r := R{Err: errutil.New("x")}; *tr = append(*tr, Here()); return r }},
	{"errutil.Newf", false, false, true, func(d int, tr *[]Frame) R { r := R{Err: errutil.Newf("x %d", 1)}; *tr = append(*tr, Here()); return r }},
	{"errutil.NewWithDepth", true, false, true, func(d int, tr *[]Frame) R { r := R{Err: errutil.NewWithDepth(d, "x")}; *tr = append(*tr, Here()); return r }},
	{"errutil.NewWithDepthf", true, false, true, func(d int, tr *[]Frame) R { r := R{Err: errutil.NewWithDepthf(d, "x %d", 1)}; *tr = append(*tr, Here()); return r }},
	{"errutil.Wrap", false, false, true, func(d int, tr *[]Frame) R { r := R{Err: errutil.Wrap(leaf, "x")}; *tr = append(*tr, Here()); return r }},
	{"errutil.Wrapf", false, false, true, func(d int, tr *[]Frame) R { r := R{Err: errutil.Wrapf(leaf, "x %d", 1)}; *tr = append(*tr, Here()); return r }},
	{"errutil.WrapWithDepth", true, false, true, func(d int, tr *[]Frame) R { r := R{Err: errutil.WrapWithDepth(d, leaf, "x")}; *tr = append(*tr, Here()); return r }},
	{"errutil.WrapWithDepthf", true, false, true, func(d int, tr *[]Frame) R { r := R{Err: errutil.WrapWithDepthf(d, leaf, "x %d", 1)}; *tr = append(*tr, Here()); return r }},
	{"errutil.AssertionFailedf", false, false, true, func(d int, tr *[]Frame) R { r := R{Err: errutil.AssertionFailedf("x %d", 1)}; *tr = append(*tr, Here()); return r }},
	{"errutil.AssertionFailedWithDepthf", true, false, true, func(d int, tr *[]Frame) R { r := R{Err: errutil.AssertionFailedWithDepthf(d, "x %d", 1)}; *tr = append(*tr, Here()); return r }},
	{"errutil.HandleAsAssertionFailure", false, false, true, func(d int, tr *[]Frame) R { r := R{Err: errutil.HandleAsAssertionFailure(leaf)}; *tr = append(*tr, Here()); return r }},
	{"errutil.HandleAsAssertionFailureDepth", true, false, true, func(d int, tr *[]Frame) R { r := R{Err: errutil.HandleAsAssertionFailureDepth(d, leaf)}; *tr = append(*tr, Here()); return r }},
	{"errutil.NewAssertionErrorWithWrappedErrf", false, false, true, func(d int, tr *[]Frame) R { r := R{Err: errutil.NewAssertionErrorWithWrappedErrf(leaf, "x %d", 1)}; *tr = append(*tr, Here()); return r }},
	{"errutil.NewAssertionErrorWithWrappedErrDepthf", true, false, true, func(d int, tr *[]Frame) R { r := R{Err: errutil.NewAssertionErrorWithWrappedErrDepthf(d, leaf, "x %d", 1)}; *tr = append(*tr, Here()); return r }},
	{"errutil.JoinWithDepth", true, false, true, func(d int, tr *[]Frame) R { r := R{Err: errutil.JoinWithDepth(d, leaf, leaf)}; *tr = append(*tr, Here()); return r }},
	{"withstack.WithStack", false, false, true, func(d int, tr *[]Frame) R { r := R{Err: withstack.WithStack(leaf)}; *tr = append(*tr, Here()); return r }},
	{"withstack.WithStackDepth", true, false, true, func(d int, tr *[]Frame) R { r := R{Err: withstack.WithStackDepth(leaf, d)}; *tr = append(*tr, Here()); return r }},
	{"domains.PackageDomain", false, true, false, func(d int, tr *[]Frame) R { r := R{Dom: domains.PackageDomain()}; *tr = append(*tr, Here()); return r }},
	{"domains.PackageDomainAtDepth", true, true, false, func(d int, tr *[]Frame) R { r := R{Dom: domains.PackageDomainAtDepth(d)}; *tr = append(*tr, Here()); return r }},
	{"domains.New", false, true, false, func(d int, tr *[]Frame) R { e := domains.New("x"); r := R{Err: e, Dom: errors.GetDomain(e)}; *tr = append(*tr, Here()); return r }},
	{"domains.Handled", false, true, false, func(d int, tr *[]Frame) R { e := domains.Handled(leaf); r := R{Err: e, Dom: errors.GetDomain(e)}; *tr = append(*tr, Here()); return r }},
	// ---- argument-value variants: the same functions on their other code paths
	{"errors.New(empty)", false, false, true, func(d int, tr *[]Frame) R { r := R{Err: errors.New("")}; *tr = append(*tr, Here()); return r }},
	{"errors.Newf(error-arg)", false, false, true, func(d int, tr *[]Frame) R { r := R{Err: errors.Newf("x %v", leaf)}; *tr = append(*tr, Here()); return r }},
	{"errors.NewWithDepthf(%w)", true, false, true, func(d int, tr *[]Frame) R { r := R{Err: errors.NewWithDepthf(d, "x %w", leaf)}; *tr = append(*tr, Here()); return r }},
	{"errors.NewWithDepthf(error-arg)", true, false, true, func(d int, tr *[]Frame) R { r := R{Err: errors.NewWithDepthf(d, "x %v", leaf)}; *tr = append(*tr, Here()); return r }},
	{"errors.Wrap(empty)", false, false, true, func(d int, tr *[]Frame) R { r := R{Err: errors.Wrap(leaf, "")}; *tr = append(*tr, Here()); return r }},
	{"errors.WrapWithDepth(empty)", true, false, true, func(d int, tr *[]Frame) R { r := R{Err: errors.WrapWithDepth(d, leaf, "")}; *tr = append(*tr, Here()); return r }},
	{"errors.Wrapf(empty)", false, false, true, func(d int, tr *[]Frame) R { r := R{Err: errors.Wrapf(leaf, "")}; *tr = append(*tr, Here()); return r }},
	{"errors.WrapWithDepthf(empty)", true, false, true, func(d int, tr *[]Frame) R { r := R{Err: errors.WrapWithDepthf(d, leaf, "")}; *tr = append(*tr, Here()); return r }},
	{"errors.WrapWithDepthf(error-arg)", true, false, true, func(d int, tr *[]Frame) R { r := R{Err: errors.WrapWithDepthf(d, leaf, "x %v", leaf)}; *tr = append(*tr, Here()); return r }},
	{"errors.Wrapf(args-only)", false, false, true, func(d int, tr *[]Frame) R { r := R{Err: errors.Wrapf(leaf, "", 1)}; *tr = append(*tr, Here()); return r }},
	{"errors.AssertionFailedWithDepthf(error-arg)", true, false, true, func(d int, tr *[]Frame) R { r := R{Err: errors.AssertionFailedWithDepthf(d, "x %v", leaf)}; *tr = append(*tr, Here()); return r }},
	{"errors.NewAssertionErrorWithWrappedErrf(empty)", false, false, true, func(d int, tr *[]Frame) R { r := R{Err: errors.NewAssertionErrorWithWrappedErrf(leaf, "")}; *tr = append(*tr, Here()); return r }},
	{"errors.HandleAsAssertionFailureDepth(assertion)", true, false, true, func(d int, tr *[]Frame) R { r := R{Err: errors.HandleAsAssertionFailureDepth(d, errors.WithAssertionFailure(leaf))}; *tr = append(*tr, Here()); return r }},
	{"errors.JoinWithDepth(nil-args)", true, false, true, func(d int, tr *[]Frame) R { r := R{Err: errors.JoinWithDepth(d, nil, leaf, nil)}; *tr = append(*tr, Here()); return r }},
	{"errors.JoinWithDepth(one)", true, false, true, func(d int, tr *[]Frame) R { r := R{Err: errors.JoinWithDepth(d, leaf)}; *tr = append(*tr, Here()); return r }},
	{"errors.WithStackDepth(stacked)", true, false, true, func(d int, tr *[]Frame) R { r := R{Err: errors.WithStackDepth(errors.WithHint(leaf, "h"), d)}; *tr = append(*tr, Here()); return r }},
	{"errutil.Wrap(empty)", false, false, true, func(d int, tr *[]Frame) R { r := R{Err: errutil.Wrap(leaf, "")}; *tr = append(*tr, Here()); return r }},
	{"errutil.WrapWithDepth(empty)", true, false, true, func(d int, tr *[]Frame) R { r := R{Err: errutil.WrapWithDepth(d, leaf, "")}; *tr = append(*tr, Here()); return r }},
	{"errutil.WrapWithDepthf(empty)", true, false, true, func(d int, tr *[]Frame) R { r := R{Err: errutil.WrapWithDepthf(d, leaf, "")}; *tr = append(*tr, Here()); return r }},
	{"errutil.NewWithDepthf(%w)", true, false, true, func(d int, tr *[]Frame) R { r := R{Err: errutil.NewWithDepthf(d, "x %w", leaf)}; *tr = append(*tr, Here()); return r }},
	{"errutil.NewAssertionErrorWithWrappedErrDepthf(empty)", true, false, true, func(d int, tr *[]Frame) R { r := R{Err: errutil.NewAssertionErrorWithWrappedErrDepthf(d, leaf, "")}; *tr = append(*tr, Here()); return r }},
	{"domains.PackageDomainAtDepth(twice)", true, true, false, func(d int, tr *[]Frame) R { _ = domains.PackageDomainAtDepth(d); r := R{Dom: domains.PackageDomainAtDepth(d)}; *tr = append(*tr, Here()); return r }},
	{"errors.NewWithDepth(file-with-colon)", true, false, true, colonNew},
	{"errors.WrapWithDepth(file-with-colon)", true, false, true, colonWrap},
}
