// Package common holds the bookkeeping types of the call-site harness (C16).
package common

import (
	"runtime"

	"github.com/cockroachdb/errors"
)

// Frame is a call site recorded by the harness itself.
type Frame struct {
	Func string
	File string
	Line int
}

// Here returns the frame of its caller.
//
//go:noinline
func Here() Frame {
	pc, f, l, _ := runtime.Caller(1)
	return Frame{Func: runtime.FuncForPC(pc).Name(), File: f, Line: l}
}

// R is the result of a table entry.
type R struct {
	Err error
	Dom errors.Domain
}

// Fn calls one library function with the given depth and records its own frame.
type Fn func(d int, tr *[]Frame) R

// HopFn is a non-inlinable helper that calls the next helper or the entry.
type HopFn func(chain []HopFn, f Fn, d int, tr *[]Frame) R

// Entry is one enumerated function.
type Entry struct {
	Name     string
	HasDepth bool // has a depth parameter
	IsDomain bool // returns / attaches a package domain
	HasStack bool // captures a stack
	Call     Fn
}

// Deep calls f with n additional frames of recursion on the goroutine's stack
// (stack capture must not depend on how deep the caller sits).
//
//go:noinline
func Deep(n int, f func()) {
	if n <= 0 {
		f()
		return
	}
	Deep(n-1, f)
}
