module verifharness

go 1.19

require (
	github.com/cockroachdb/errors v0.0.0
	github.com/cockroachdb/logtags v0.0.0-20230118201751-21c54148d20b
	github.com/cockroachdb/redact v1.1.5
	github.com/getsentry/sentry-go v0.27.0
	github.com/gogo/googleapis v1.4.1
	github.com/gogo/protobuf v1.3.2
	github.com/gogo/status v1.1.0
	github.com/golang/protobuf v1.5.3
	github.com/hydrogen18/memlistener v1.0.0
	github.com/pkg/errors v0.9.1
	google.golang.org/grpc v1.56.3
	google.golang.org/protobuf v1.33.0
)

require (
	github.com/kr/pretty v0.3.1 // indirect
	github.com/kr/text v0.2.0 // indirect
	github.com/rogpeppe/go-internal v1.9.0 // indirect
	golang.org/x/net v0.23.0 // indirect
	golang.org/x/sys v0.18.0 // indirect
	golang.org/x/text v0.14.0 // indirect
	google.golang.org/genproto v0.0.0-20230410155749-daa745c078e1 // indirect
)

replace github.com/cockroachdb/errors => /repo
