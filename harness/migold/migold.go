// Package mig (import path verifharness/migold) is where the type LP lived
// BEFORE it moved to verifharness/mig: same package name, same type name,
// another import path (C17: a rename that only changes the package path).
package mig

type LP struct{}

func (LP) Error() string { return "the-msg" }
