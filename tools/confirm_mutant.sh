#!/bin/bash
# tools/confirm_mutant.sh <Cxx> [suffix]
# Confirms a seeded change produced in /tmp/wt-<Cxx><suffix>: builds, the pinned suite (244 stable tests) still passes,
# the demonstration fails with the change and passes without it. On success stores it as /verif/seeded/<Cxx><suffix>/.
set -u
ID=$1; ROUND=${2:-}
WT=/tmp/wt$ROUND-$ID
SUF=""; [ -n "$ROUND" ] && SUF="-r$ROUND"
export GOFLAGS=-mod=mod GOPROXY=off GOSUMDB=off GOTOOLCHAIN=local
cd "$WT" || exit 3
PATCH=$WT/MUTANT/patch.diff
[ -s "$PATCH" ] || { echo "no patch"; exit 3; }
# normalise the state: clean tracked files, then apply the patch
git checkout -- . 2>/dev/null
git apply --check "$PATCH" || { echo "patch does not apply to clean tree"; exit 3; }
# demo test files = untracked *_test.go outside MUTANT
mapfile -t DEMOS < <(git status --porcelain | awk '$1=="??"{print $2}' | grep '_test\.go$' | grep -v '^MUTANT/')
[ ${#DEMOS[@]} -gt 0 ] || { echo "no demo test found"; exit 3; }
run_demo() {
  local rc=0
  for f in "${DEMOS[@]}"; do
    d=$(dirname "$f"); names=$(grep -ohE '^func (Test[A-Za-z0-9_]+)' "$f" | awk '{print $2}' | paste -sd'|')
    (cd "$d" && go test ${DEMO_FLAGS:-} -vet=off -count=1 -run "^($names)\$" . >/tmp/demo-$ID$SUF.log 2>&1) || rc=1
  done
  return $rc
}
echo "-- without the change:"; if run_demo; then echo "   demo PASSES"; else echo "   demo FAILS without the change (bad)"; tail -5 /tmp/demo-$ID$SUF.log; exit 1; fi
git apply "$PATCH"
go build ./... || { echo "does not build"; exit 1; }
go build -tags verif ./... || { echo "does not build with verif tag"; exit 1; }
echo "-- with the change:"; if run_demo; then echo "   demo PASSES with the change (bad)"; exit 1; else echo "   demo FAILS"; grep -E "^\s+--- FAIL|^--- FAIL" /tmp/demo-$ID$SUF.log | head -4; fi
echo "-- pinned suite with the change:"; python3 /verif/tools/baseline.py "$WT" > /tmp/base-$ID$SUF.log 2>&1; brc=$?; head -2 /tmp/base-$ID$SUF.log; [ $brc -eq 0 ] || { echo "pinned suite broken by the change: NOT stored"; exit 1; }
DEST=/verif/seeded/$ID$SUF
mkdir -p "$DEST"
cp "$PATCH" "$DEST/patch.diff"
for f in "${DEMOS[@]}"; do cp "$f" "$DEST/$(basename "$f").txt"; done
[ -f MUTANT/README.md ] && cp MUTANT/README.md "$DEST/agent_README.md"
echo "${DEMOS[*]}" > "$DEST/demo_files.txt"
echo "stored in $DEST"
