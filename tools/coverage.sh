#!/bin/bash
# tools/coverage.sh [tier] — statement coverage of the LIBRARY by the monitors' workloads.
# Builds the harness with coverage instrumentation of github.com/cockroachdb/errors/... (scratch dir
# outside /repo and /verif), runs every property's monitor once (default tier quick, seed 1), merges
# the counters and writes /verif/coverage/summary.txt (per-function percentages of the functions that
# are not fully covered + total) and /verif/coverage/uncovered.txt (uncovered blocks, file:lines).
# This is observability of the workload ("which code did the monitors never drive?"), not a verdict.
set -eu
TIER=${1:-quick}
ROOT=$(cd "$(dirname "$0")/.." && pwd)
export GOFLAGS=-mod=mod GOPROXY=off GOSUMDB=off GOTOOLCHAIN=local
W=$(mktemp -d "${TMPDIR:-/var/tmp}/verif-cov.XXXXXX")
trap 'rm -rf "$W"' EXIT
mkdir -p "$W/data" "$W/out" "$ROOT/coverage"
(cd "$ROOT/harness" && go build -tags verif -cover -coverpkg=github.com/cockroachdb/errors/...,verifharness/... -o "$W/verifmon-cover" ./cmd/verifmon)
for p in C01 C02 C03 C04 C05 C06 C07 C08 C09 C10 C11 C12 C13 C14 C15 C16 C17 C18 C19 C20; do
  GOCOVERDIR="$W/data" "$W/verifmon-cover" -root "$ROOT" -out "$W/out" -prop $p -tier "$TIER" -seed 1 2>&1 | grep -E "^$p $TIER" | cut -c1-100
done
(cd "$ROOT/harness" && go tool covdata textfmt -i="$W/data" -o "$W/profile.txt")
grep -v "^verifharness/" "$W/profile.txt" | grep -v "\.pb\.go:\|verif_hooks\.go:\|/testutils/\|/fmttests/" > "$W/lib.txt"
(cd "$ROOT/harness" && go tool cover -func="$W/lib.txt") | awk '{print $NF, $1, $2}' | sort -n | awk '$1+0 < 100 || $2 == "total:"' | sed 's#github.com/cockroachdb/errors/##' > "$ROOT/coverage/summary.txt"
python3 - "$W/lib.txt" > "$ROOT/coverage/uncovered.txt" <<'PY'
import re,sys,collections
unc=collections.defaultdict(set)
for l in open(sys.argv[1]).read().splitlines()[1:]:
    m=re.match(r'(.*):(\d+)\.\d+,(\d+)\.\d+ \d+ (\d+)',l)
    if m and int(m.group(4))==0:
        unc[m.group(1).replace('github.com/cockroachdb/errors/','')].add((int(m.group(2)),int(m.group(3))))
for f in sorted(unc):
    print(f, ' '.join('%d-%d'%r for r in sorted(unc[f])))
PY
tail -1 "$ROOT/coverage/summary.txt"
