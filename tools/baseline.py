#!/usr/bin/env python3
"""Runs the repository's pinned suite (hooks OFF) and compares with BASELINE.json stable_pass."""
import json, os, subprocess, sys
env = dict(os.environ, GOFLAGS="-mod=mod", GOPROXY="off", GOSUMDB="off", GOTOOLCHAIN="local")
repo = sys.argv[1] if len(sys.argv) > 1 else "/repo"
base = json.load(open("/root/.vp/BASELINE.json"))
want = set(base["stable_pass"])
p = subprocess.run(["go", "test", "-json", "-vet=off", "-count=1", "-timeout", "25m", "./..."], cwd=repo, env=env, capture_output=True, text=True)
passed, failed = set(), set()
for line in p.stdout.splitlines():
    try:
        ev = json.loads(line)
    except Exception:
        continue
    if ev.get("Test") and ev.get("Action") in ("pass", "fail"):
        name = ev["Package"] + "::" + ev["Test"]
        (passed if ev["Action"] == "pass" else failed).add(name)
missing = sorted(want - passed)
print(f"baseline: {len(want)} expected, {len(passed & want)} passed, {len(missing)} missing, {len(failed)} failed overall")
for m in missing[:40]:
    print("  MISSING/FAILED:", m)
for f in sorted(failed - want)[:3]:
    print("  (not in stable_pass, informational) FAILED:", f)
sys.exit(1 if missing else 0)  # tests outside stable_pass (toolchain-dependent goldens) are informational
