#!/bin/bash
# tools/try_mutant.sh <worktree-with-the-change-applied | patch.diff> <tier> <Cxx> [Cyy ...]
# Runs the given checks against a seeded change.
#  - given a directory (a scratch worktree of /repo that has the change applied): the harness is pointed at it
#    through VERIF_REPO, /repo is not touched;
#  - given a patch: it is applied to /repo, the checks run, and it is ALWAYS reverted.
set -u
TARGET=$1; TIER=$2; shift 2
cd /verif
export VERIF_OUT=${VERIF_OUT:-/var/tmp/verif-mutant-out/$(basename "$TARGET")}
mkdir -p "$VERIF_OUT"
if [ -d "$TARGET" ]; then
  export VERIF_REPO=$TARGET
else
  if [ -n "$(git -C /repo status --porcelain)" ]; then echo "/repo is dirty, refusing"; exit 3; fi
  git -C /repo apply "$TARGET" || { echo "patch does not apply"; exit 3; }
  trap 'git -C /repo checkout -- . ; git -C /repo status --porcelain | grep -v "^??" ' EXIT
fi
for p in "$@"; do
  out=$(./check "$p" "$TIER" 2>&1); rc=$?
  echo "== $p rc=$rc :: $(echo "$out" | grep -E "^$p (quick|thorough)|^C09 corpus|INCONCLUSIVE" | tr '\n' ' ' | cut -c1-260)"
  echo "$out" | grep -E "^  sig=" | sort | uniq -c | head -8
done
