#!/bin/bash
# tools/try_mutant.sh <patch.diff | dir containing MUTANT/patch.diff | /verif/seeded/<id>> <tier> <Cxx> [Cyy ...]
# Runs the given checks against a seeded change WITHOUT touching /repo: a scratch worktree of /repo's
# current HEAD is created outside /repo and /verif, the patch applied there, the harness pointed at it
# through VERIF_REPO, and the worktree removed afterwards (with its build output).
set -u
TARGET=$1; TIER=$2; shift 2
case "$TARGET" in /*) ;; *) TARGET=$PWD/$TARGET ;; esac
if [ -d "$TARGET" ]; then
  if [ -f "$TARGET/patch.diff" ]; then PATCH=$TARGET/patch.diff; else PATCH=$TARGET/MUTANT/patch.diff; fi
else
  PATCH=$TARGET
fi
NAME=$(echo "$TARGET" | tr '/' '_')
export VERIF_OUT=/var/tmp/verif-mutant-out/$NAME.$$
WT=/var/tmp/verif-mutant-wt/$NAME.$$
mkdir -p /var/tmp/verif-mutant-wt
git -C /repo worktree add -q --detach "$WT" HEAD || exit 3
trap 'git -C /repo worktree remove --force "$WT" 2>/dev/null; rm -rf "$WT" "$VERIF_OUT"' EXIT
git -C "$WT" apply "$PATCH" || { echo "patch does not apply to /repo HEAD"; exit 3; }
export VERIF_REPO=$WT
mkdir -p "$VERIF_OUT"
cd /verif
for p in "$@"; do
  out=$(./check "$p" "$TIER" 2>&1); rc=$?
  echo "== $p rc=$rc :: $(echo "$out" | grep -E "^$p (quick|thorough)|^C09 corpus|INCONCLUSIVE" | tr '\n' ' ' | cut -c1-260)"
  echo "$out" | grep -E "^  sig=" | sort | uniq -c | head -8
done
