#!/usr/bin/env python3
"""Regenerates /verif/MANIFEST.json from the table below (run after adding a check)."""
import json, os, subprocess
ROOT = os.path.dirname(os.path.dirname(os.path.abspath(__file__)))
HOOK_COMMITS = ["74b1d3b"]
ENGINE_CORPUS = {"name": "corpus", "path": "/verif/corpus/run.sh", "serves_properties": ["C09"],
                 "kind_free_text": "re-renders the repository's curated formatting corpus with its own datadriven driver on a scratch copy of /repo (under ${TMPDIR:-/var/tmp}, removed afterwards) and diffs it against vetted reference renderings"}

# id -> (level category, technique, level text, level note, design ref)
CHECKS = {
 "C10": ("exploration", "runtime reference-model monitor (compositional text model) + constructor x nil sweep",
         "Every layer's Error() of generated trees (pairwise kind sweep + PRNG trees) is compared with an independent compositional model; annotation-only wrappers are checked for transparency (root cause, Is, As); every exported wrapper constructor is called with nil, on its plain and on 23 rich-argument paths (tagged context, error-typed format arguments, non-empty link, codes.OK, empty message ...). Held = no divergence on the executions observed.",
         "Trusts the harness text model and the stdlib/pkg-errors/os/net documented message formulas; says nothing about kinds or strings outside the generated families.", "§4 C10"),
}
CHECKS.update({
 "C01": ("exploration", "differential monitor over recorded encode/marshal/decode hops (shape + per-node text + wire-byte drift)",
         "Generated trees (pairwise kind sweep + PRNG) are hopped k times through the real EncodeError / gogo-proto Marshal / Unmarshal / DecodeError; after every hop the visible tree and every node's Error() are compared with the origin, and the bytes a process forwards with the bytes it received. Held = no divergence on the executions observed.",
         "Origin observation is the oracle (tied to the text model by C10). w1 != w0 is tolerated only for trees with barrier/secondary layers (their safe details embed a re-rendered hidden error).", "§4 C01"),
 "C02": ("exploration", "differential monitor over histories: Is/IsAny before vs after transfer of e, r, or both, through knowing and unknowing (registry-forgetting hook) processes",
         "For every (e, r) pair of a generated tree and its reference pool (own layers incl. hidden, sentinels, errnos, independent tree, near-equal perturbations) the Is answer before transfer is compared with the answer after 5-7 hop histories mixing knowing and unknowing processes, with r transferred, with both, and at an observer that does not know third-party types.",
         "Before-transfer answer is the oracle (tied to the documented equivalence by C08). Unknowing process = decoders for chosen keys removed during decode (verif hook). Pairs whose local match is due only to a foreign Is method are exempt when r is transferred, as the statement says.", "§4 C02"),
 "C04": ("exploration", "differential monitor over histories with unknowing intermediaries: text / type names / safe details at the unknowing process, byte-exact re-encoding, full observation record at the final knowing receiver vs direct hop",
         "For every generated tree, every subset of its wire type keys (all 2^n for n<=6, sampled otherwise) is forgotten at an intermediary; monitors compare the text shown there with the origin, the bytes forwarded with the bytes received, and the complete observation record (text, shape, Is pool, annotations, %+v, per-layer details and stacks) of a later knowing receiver with that of a direct transfer; wrappers that override their cause's message also do so with the empty string. The hook-based simulation is cross-checked against hook-free wire renaming.",
         "Unknowing process = decoders removed during decode (verif hook). Two recorded findings (barrier markers, gRPC status description) are printed as KNOWN-FINDING.", "§4 C04"),
 "C08": ("exploration", "reference-model monitor: errors.Is/IsAny vs an independent implementation of the documented equivalence over model marks + algebraic monitors",
         "All (e, r) pairs from a generated tree, its layers, sentinels and systematically perturbed copies (message / type / domain / extra / missing layer, strict prefix and extension chains, leaf-or-wrapper types, non-comparable values, Mark with references of other chain lengths) are evaluated and compared with a reference implementation whose marks come from the model's hard-coded family table; reflexivity, monotonicity under 11 wrappers, IsAny = disjunction on random sub-pools and nil handling are asserted.",
         "Marks come from the model table, not from the library; foreign Is methods are called on live objects.", "§4 C08"),
})
CHECKS.update({
 "C03": ("exploration", "taint monitor: unique tokens on unsafe inputs searched in every PII-free output (redacted renderings, safe details, wire reportable payloads, Sentry event JSON and extras) at 5 stages",
         "Every unsafe input string of a generated tree carries a unique token (regular and hostile string classes, incl. redaction-marker runes, newlines, NUL, invalid UTF-8, printf verbs); the token must not occur in any output the library declares PII-free, locally, after 1-2 hops, at a process that knows no type, and after unknowing->knowing.",
         "Trusts the model's taint map (which constructor argument is an unsafe channel). Domain names inside a Mark reference are part of its type marks and therefore not treated as unsafe.", "§4 C03"),
 "C05": ("fault_enumeration", "fault enumeration at the decoder boundary driven by the live registries (verif hook) + wire-byte fuzzing; decoded errors exercised through every public operation in child processes",
         "For every decoder key found in the live registries: 26 payload faults x 5 reportable-detail sets x message types x multi-cause counts x 5 carrier positions; DecodeError must not panic nor return nil and the result must survive Error(), all verbs (plain, Formattable, redacted), every accessor, Is/As, report building, re-encoding and a further hop without panic or PANIC= output. Plus byte-level mutants of valid encodings that still unmarshal into a complete message.",
         "'Complete' is applied recursively (also to EncodedErrors nested in Any payloads). Exhaustive for the enumerated fault product, sampled for the fuzz part.", "§4 C05"),
 "C06": ("exploration", "trace-specification monitor: marker scanner (balanced, non-nested, balanced per line) on redactable renderings; byte-equality redactable-stripped vs plain; refusal-form monitor",
         "Redactable %v/%s/%+v renderings of generated trees over hostile strings must pass a per-line marker scanner at 5 stages (local, decoded, opaque, ...); for marker-free strings StripMarkers(redact.Sprintf) must equal fmt.Sprintf via Formattable byte for byte; %q/%x/%X must be refused as ‹%!verb(type)› and leak no unsafe token.",
         "For congruence the library's own plain rendering is the oracle (tied to the model by C09/C10).", "§4 C06"),
 "C07": ("exploration", "reference-model + invariant monitors on trees with forced hidden sub-trees (reachability, Is/IsAny/As/HasType/HasInterface/If, every accessor vs a visible-layers-only model; positive half on %+v and safe details)",
         "Trees with barrier / secondary / error-argument / Mark nodes whose hidden sub-tree carries hints, details, domains, flags, codes, keys, links, sentinels and As-target types: hidden objects must be unreachable (also through each layer's own Unwrap()/Cause() methods and the standard library's walk), contribute nothing to Is/IsAny/As/HasType/If and accessors (model over visible layers only), locally and after 2 hops; Handled keeps the text, WithMessage variants replace it; every token and type of the hidden error's own %+v appears in the hiding error's %+v; the hiding layer's safe details contain the hidden chain's safe details.",
         "Visible-layer model of harness/model; %+v visibility is token/type based.", "§4 C07"),
 "C09": ("exploration", "reference monitors on formatting (fmt on the Error() string as oracle for 550 verb/flag/width/precision specs; %+v entry parser vs the model's layer list, order, types, indentation and per-layer detail) + the repository's curated corpus re-rendered and diffed against vetted references",
         "Monitor A: for library-typed, decoded and Formattable-wrapped generated errors, every simple verb variant must equal fmt's rendering of the Error() string; unsupported verbs give %!verb(type); %#v is a Go-syntax dump; %+v starts with Error(), has exactly one entry per visible layer in the documented order and indentation, an 'Error types' line naming every layer's Go type, and each library wrapper's own detail in its entry. Monitor B: 13 corpus files (484 leaf x wrapper cases, 87k lines) re-rendered with the repository's own driver on a scratch copy and compared line by line modulo toolchain closure naming.",
         "fmt on the Error() string is the oracle; '+' with s/q/x/X is not claimed; multi-line messages compare first lines only. Corpus references are the pinned commit's vetted renderings.", "§4 C09"),
 "C11": ("exploration", "differential monitor over recorded hops: every annotation accessor, per-layer safe details, every stack frame, one-line source before vs after hops 1..k; foreign-platform errno history",
         "All annotation accessors, per-layer safe details (barrier/secondary layers excluded), every frame of every reportable stack and the one-line source of generated trees are compared before the first hop and after each of 3 (quick) / 6 (thorough) hops; trees with an errno are also sent with a foreign ErrnoPayload.arch. The generator draws boundary argument values too (Safe / nil / int tag values, detail-only issue links, the zero HTTP / gRPC code).",
         "Origin observation is the oracle (tied to the accessor model by C19, to call sites by C16).", "§4 C11"),
 "C12": ("exploration", "conservation monitor: tokens on every declared-safe input, type names and first stack frames must be found in the Sentry report or GetAllSafeDetails at 4 stages",
         "Every string the library declares PII-free (constant messages and formats, Safe() args, telemetry keys, domains, issue links, tag keys) carries a token that must be present in the Sentry event/extras or GetAllSafeDetails, locally, after 1-2 hops and after unknowing->knowing, also behind barriers and in secondary errors; every stage is observed twice (reporting must not consume what it reports); every visible layer's type name must be in the 'error types' extra and every capturing layer's first frame in the exceptions (visible) or safe details (hidden).",
         "Declared-safe set of the model; the inside of a Mark reference carries no obligation.", "§4 C12"),
 "C13": ("exploration", "reference-model + differential monitors on trees with forced nested multi-cause nodes (Is/IsAny = self or some branch; As first match by object identity; Unwrap family; Join nil handling; branches across knowing/unknowing hops; %+v entries)",
         "For every multi-cause layer of generated trees (5 multi-cause kinds, nested, under wrappers, as barrier payload): Is/IsAny against a perturbed reference pool must equal self-match or a branch match; As must assign the first match in branch order (object identity); Unwrap/UnwrapOnce nil, Cause/UnwrapAll itself; Join drops nils; branch count/order/text/annotations survive hop1, hop2, unknowing (arity/order) and unknowing->knowing; %+v has an entry per layer.",
         "Marks from the model table; origin observation is the oracle across hops.", "§4 C13"),
 "C14": ("exploration", "differential monitor against Go's errors package and pkg/errors on the same live objects",
         "std Is implies ours on every (tree, reference) pair; As on 19 target types (pointer, value, interface) plus types with their own As method (a leaf that converts itself, a wrapper that declines every target but one): std match implies ours with the same value, equality where the std walker can reach the whole tree; Unwrap equals std Unwrap on types with Unwrap() error and is nil for multi-cause; Cause/UnwrapAll equal pkg/errors.Cause on Cause() chains; every layer the std walker can reach is found by std Is.",
         "Go's errors and pkg/errors v0.9.1 are the oracles.", "§4 C14"),
 "C15": ("exploration", "structural trace monitor on BuildSentryReport against the model's layer list and per-layer stacks",
         "For generated trees (local, decoded once/twice): message = [file:line: ] (predicted from the innermost frame of the innermost stack-bearing layer, independently of GetOneLineSource) + redacted %+v + composition header + exactly one line per layer; exceptions = max(1, stack-bearing layers), exception i carries the i-th stack-bearing layer's frames outermost first; module = GetDomain; 'error types' = one line per layer with type and mark, innermost first, compared with the model's table; nil gives nothing.",
         "Layer count/order/type names/marks from the model; frames from per-layer GetReportableStackTrace.", "§4 C15"),
 "C16": ("fault_enumeration", "call-site bookkeeping monitor: exhaustive table of stack-capturing / domain-computing functions x depth x call path; expected frame = the harness's own runtime.Caller record",
         "64 table entries (42 exported functions of root, errutil, withstack, domains + 22 argument-value variants: empty message/format, error-typed arguments, %w, nil arguments) x 2 defining packages x 7 call paths through non-inlinable helpers alternating between two packages x depth 0..3: the first frame of the captured stack, GetOneLineSource and the package domain must denote the d-th caller recorded by the harness on the same source line; GetOneLineSource must stay the same under another stack and under foreign Cause-only / Unwrap-only wrappers, and after the caller scribbles on the slice StackTrace() returned. Functions found in the repository's source but missing from the table are listed as unexercised.",
         "The harness's runtime.Caller bookkeeping is the oracle; grpc/status.Error/Errorf are outside the enumerated API.", "§4 C16"),
 "C17": ("exploration", "configuration enumeration with runtime monitors on wire family names, decoded Go types and Is across every (sender, intermediary, receiver) triple of code versions",
         "12 code versions (never knew, original, A>B, A>C, A>B>C in both registration orders, A>B>C>D in six orders; a leaf value type with a custom leaf encoder registered in the documented order, and a wrapper pointer type) installed through the public registration API around every step; every (sender, intermediary-or-none, receiver) triple is executed; plus scenario 5 at a process that never knew the type, registration-order independence of GetTypeKey and rejection of double registration. Enumerated completely.",
         "A code version is simulated in-process: empty migration registry + that version's RegisterTypeMigration calls + its decoders.", "§4 C17"),
 "C18": ("exploration", "Go race detector over a shared-error stress workload (verdict = DATA RACE blocks in the GORACE logs) + determinism monitor against sequential reference results",
         "Harness and library are built with -race; per case one shared error (local or decoded) is hit by 16 (quick) / 48 (thorough) goroutines released together, each running 3 / 6 rounds of 14 observer operations; the shared value is kept cold (reference computed on a twin) in its own order with no synchronisation in the measured region; every result is compared with the sequential reference; overlap of operations is measured from timestamps and a case without overlap does not count as non-trivial.",
         "The race detector only sees the executions produced.", "§4 C18"),
 "C19": ("exploration", "reference-model monitor on every aggregation accessor vs an independent model over the visible single-cause chain",
         "Chains of 2-9 wrappers (three quarters annotation wrappers) over small trees with strings from a 9-word pool with repeats, empties and a string equal to a standard hint: GetAllHints, FlattenHints, GetAllDetails, FlattenDetails, GetAllIssueLinks, GetTelemetryKeys, GetDomain, GetContextTags, six Has/Is flags and HTTP/gRPC codes must equal the model, on the local error and on the error decoded at a knowing process.",
         "Accessor model of harness/model.", "§4 C19"),
 "C20": ("exploration", "differential monitor at the client boundary of a real in-memory gRPC server with the repository's interceptors vs direct EncodeError/DecodeError transfer",
         "Generated trees are returned by the Echoer handler behind UnaryServerInterceptor; the error received through UnaryClientInterceptor must have the same observation record (text, shape, annotations, per-layer details and stacks, %+v) and Is answers as a direct hop; a raw client must see the code attached with WrapWithGrpcCode (Unknown otherwise) and the error text; status errors and nil pass through unchanged.",
         "Server and clients run in-process over memlistener; a deadline hit is inconclusive.", "§4 C20"),
})
NOT_YET = {}

def main():
    props = [json.loads(l) for l in open(os.path.join(ROOT, "properties.jsonl"))]
    checks, na = [], []
    for p in props:
        pid = p["id"]
        if pid in CHECKS:
            cat, tech, text, note, ref = CHECKS[pid]
            checks.append({
                "property_id": pid,
                "quick_cmd": f"./check {pid} quick",
                "thorough_cmd": f"./check {pid} thorough",
                "evidence_file": f"/verif/evidence/{pid}.json",
                "replay_cmd_template": f"./check {pid} --replay {{path}}",
                "engine": "verifmon",
                "level_claimed": {"category": cat, "text": text, "design_ref": ref},
                "level_note": note,
                "technique": tech,
            })
        else:
            na.append({"property_id": pid, "reason": NOT_YET.get(pid, "check not built yet (work in progress; see DESIGN.md for the planned monitor)")})
    m = {
        "version": 1,
        "setup_cmd": "./check --setup",
        "hooks": {
            "guard": "verif",
            "enable": "go build -tags verif (the harness module /verif/harness replaces github.com/cockroachdb/errors with /repo)",
            "baseline_off_cmd": "cd /repo && GOFLAGS=-mod=mod GOPROXY=off GOSUMDB=off GOTOOLCHAIN=local go test -json -vet=off -count=1 -timeout 25m ./...",
            "source_commits": HOOK_COMMITS,
            "add_only": True,
        },
        "engines": [
            {"name": "verifmon", "path": "/verif/harness/cmd/verifmon", "serves_properties": sorted(CHECKS),
             "kind_free_text": "Go driver: workload generator + shadow model + process/hop simulator + one runtime monitor per property; forks one child per worker, journals each case before executing it"},
            ENGINE_CORPUS,
        ],
        "checks": checks,
        "not_applicable": na,
        "notes": "Technique family: runtime monitoring. Exit 0 = held (KNOWN-FINDING lines allowed), 1 = VIOLATION, 2 = inconclusive (watchdog / coverage floor / harness inconsistency; never printed as a violation).",
    }
    json.dump(m, open(os.path.join(ROOT, "MANIFEST.json"), "w"), indent=1)
    print("wrote MANIFEST.json:", len(checks), "checks,", len(na), "not_applicable")

if __name__ == "__main__":
    main()
