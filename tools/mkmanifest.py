#!/usr/bin/env python3
"""Regenerates /verif/MANIFEST.json from the table below (run after adding a check)."""
import json, os, subprocess
ROOT = os.path.dirname(os.path.dirname(os.path.abspath(__file__)))
HOOK_COMMITS = ["74b1d3b"]

# id -> (level category, technique, level text, level note, design ref)
CHECKS = {
 "C10": ("exploration", "runtime reference-model monitor (compositional text model) + constructor x nil sweep",
         "Every layer's Error() of generated trees (pairwise kind sweep + PRNG trees) is compared with an independent compositional model; annotation-only wrappers are checked for transparency (root cause, Is, As); every exported wrapper constructor is called with nil. Held = no divergence on the executions observed.",
         "Trusts the harness text model and the stdlib/pkg-errors/os/net documented message formulas; says nothing about kinds or strings outside the generated families.", "§4 C10"),
}
CHECKS.update({
 "C01": ("exploration", "differential monitor over recorded encode/marshal/decode hops (shape + per-node text + wire-byte drift)",
         "Generated trees (pairwise kind sweep + PRNG) are hopped k times through the real EncodeError / gogo-proto Marshal / Unmarshal / DecodeError; after every hop the visible tree and every node's Error() are compared with the origin, and the bytes a process forwards with the bytes it received. Held = no divergence on the executions observed.",
         "Origin observation is the oracle (tied to the text model by C10). w1 != w0 is tolerated only for trees with barrier/secondary layers (their safe details embed a re-rendered hidden error).", "§4 C01"),
 "C02": ("exploration", "differential monitor over histories: Is/IsAny before vs after transfer of e, r, or both, through knowing and unknowing (registry-forgetting hook) processes",
         "For every (e, r) pair of a generated tree and its reference pool (own layers incl. hidden, sentinels, errnos, independent tree, near-equal perturbations) the Is answer before transfer is compared with the answer after 5-7 hop histories mixing knowing and unknowing processes, with r transferred, with both, and at an observer that does not know third-party types.",
         "Before-transfer answer is the oracle (tied to the documented equivalence by C08). Unknowing process = decoders for chosen keys removed during decode (verif hook). Pairs whose local match is due only to a foreign Is method are exempt when r is transferred, as the statement says.", "§4 C02"),
 "C04": ("exploration", "differential monitor over histories with unknowing intermediaries: text / type names / safe details at the unknowing process, byte-exact re-encoding, full observation record at the final knowing receiver vs direct hop",
         "For every generated tree, every subset of its wire type keys (all 2^n for n<=6, sampled otherwise) is forgotten at an intermediary; monitors compare the text shown there with the origin, the bytes forwarded with the bytes received, and the complete observation record (text, shape, Is pool, annotations, %+v, per-layer details and stacks) of a later knowing receiver with that of a direct transfer. The hook-based simulation is cross-checked against hook-free wire renaming.",
         "Unknowing process = decoders removed during decode (verif hook). Two recorded findings (barrier markers, gRPC status description) are printed as KNOWN-FINDING.", "§4 C04"),
 "C08": ("exploration", "reference-model monitor: errors.Is/IsAny vs an independent implementation of the documented equivalence over model marks + algebraic monitors",
         "All (e, r) pairs from a generated tree, its layers, sentinels and systematically perturbed copies (message / type / domain / extra / missing layer, strict prefix and extension chains, leaf-or-wrapper types, non-comparable values, Mark with references of other chain lengths) are evaluated and compared with a reference implementation whose marks come from the model's hard-coded family table; reflexivity, monotonicity under 11 wrappers, IsAny = disjunction on random sub-pools and nil handling are asserted.",
         "Marks come from the model table, not from the library; foreign Is methods are called on live objects.", "§4 C08"),
})
NOT_YET = {}

def main():
    props = [json.loads(l) for l in open(os.path.join(ROOT, "properties.jsonl"))]
    checks, na = [], []
    for p in props:
        pid = p["id"]
        if pid in CHECKS:
            cat, tech, text, note, ref = CHECKS[pid]
            checks.append({
                "property_id": pid,
                "quick_cmd": f"./check {pid} quick",
                "thorough_cmd": f"./check {pid} thorough",
                "evidence_file": f"/verif/evidence/{pid}.json",
                "replay_cmd_template": f"./check {pid} --replay {{path}}",
                "engine": "verifmon",
                "level_claimed": {"category": cat, "text": text, "design_ref": ref},
                "level_note": note,
                "technique": tech,
            })
        else:
            na.append({"property_id": pid, "reason": NOT_YET.get(pid, "check not built yet (work in progress; see DESIGN.md for the planned monitor)")})
    m = {
        "version": 1,
        "setup_cmd": "./check --setup",
        "hooks": {
            "guard": "verif",
            "enable": "go build -tags verif (the harness module /verif/harness replaces github.com/cockroachdb/errors with /repo)",
            "baseline_off_cmd": "cd /repo && GOFLAGS=-mod=mod GOPROXY=off GOSUMDB=off GOTOOLCHAIN=local go test -json -vet=off -count=1 -timeout 25m ./...",
            "source_commits": HOOK_COMMITS,
            "add_only": True,
        },
        "engines": [
            {"name": "verifmon", "path": "/verif/harness/cmd/verifmon", "serves_properties": sorted(CHECKS),
             "kind_free_text": "Go driver: workload generator + shadow model + process/hop simulator + one runtime monitor per property; forks one child per worker, journals each case before executing it"},
        ],
        "checks": checks,
        "not_applicable": na,
        "notes": "Technique family: runtime monitoring. Exit 0 = held (KNOWN-FINDING lines allowed), 1 = VIOLATION, 2 = inconclusive (watchdog / coverage floor / harness inconsistency; never printed as a violation).",
    }
    json.dump(m, open(os.path.join(ROOT, "MANIFEST.json"), "w"), indent=1)
    print("wrote MANIFEST.json:", len(checks), "checks,", len(na), "not_applicable")

if __name__ == "__main__":
    main()
