#!/usr/bin/env python3
"""Regenerates /verif/MANIFEST.json from the table below (run after adding a check)."""
import json, os, subprocess
ROOT = os.path.dirname(os.path.dirname(os.path.abspath(__file__)))
HOOK_COMMITS = ["74b1d3b"]

# id -> (level category, technique, level text, level note, design ref)
CHECKS = {
 "C10": ("exploration", "runtime reference-model monitor (compositional text model) + constructor x nil sweep",
         "Every layer's Error() of generated trees (pairwise kind sweep + PRNG trees) is compared with an independent compositional model; annotation-only wrappers are checked for transparency (root cause, Is, As); every exported wrapper constructor is called with nil. Held = no divergence on the executions observed.",
         "Trusts the harness text model and the stdlib/pkg-errors/os/net documented message formulas; says nothing about kinds or strings outside the generated families.", "§4 C10"),
}
NOT_YET = {}

def main():
    props = [json.loads(l) for l in open(os.path.join(ROOT, "properties.jsonl"))]
    checks, na = [], []
    for p in props:
        pid = p["id"]
        if pid in CHECKS:
            cat, tech, text, note, ref = CHECKS[pid]
            checks.append({
                "property_id": pid,
                "quick_cmd": f"./check {pid} quick",
                "thorough_cmd": f"./check {pid} thorough",
                "evidence_file": f"/verif/evidence/{pid}.json",
                "replay_cmd_template": f"./check {pid} --replay {{path}}",
                "engine": "verifmon",
                "level_claimed": {"category": cat, "text": text, "design_ref": ref},
                "level_note": note,
                "technique": tech,
            })
        else:
            na.append({"property_id": pid, "reason": NOT_YET.get(pid, "check not built yet (work in progress; see DESIGN.md for the planned monitor)")})
    m = {
        "version": 1,
        "setup_cmd": "./check --setup",
        "hooks": {
            "guard": "verif",
            "enable": "go build -tags verif (the harness module /verif/harness replaces github.com/cockroachdb/errors with /repo)",
            "baseline_off_cmd": "cd /repo && GOFLAGS=-mod=mod GOPROXY=off GOSUMDB=off GOTOOLCHAIN=local go test -json -vet=off -count=1 -timeout 25m ./...",
            "source_commits": HOOK_COMMITS,
            "add_only": True,
        },
        "engines": [
            {"name": "verifmon", "path": "/verif/harness/cmd/verifmon", "serves_properties": sorted(CHECKS),
             "kind_free_text": "Go driver: workload generator + shadow model + process/hop simulator + one runtime monitor per property; forks one child per worker, journals each case before executing it"},
        ],
        "checks": checks,
        "not_applicable": na,
        "notes": "Technique family: runtime monitoring. Exit 0 = held (KNOWN-FINDING lines allowed), 1 = VIOLATION, 2 = inconclusive (watchdog / coverage floor / harness inconsistency; never printed as a violation).",
    }
    json.dump(m, open(os.path.join(ROOT, "MANIFEST.json"), "w"), indent=1)
    print("wrote MANIFEST.json:", len(checks), "checks,", len(na), "not_applicable")

if __name__ == "__main__":
    main()
