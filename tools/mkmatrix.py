#!/usr/bin/env python3
"""Builds seeded/MATRIX.md from the tsv files written by tools/diag.sh
(every seeded change x the check of its own property, quick tier, seed 1)."""
import sys, json, os
rows = []
for f in sys.argv[1:]:
    for l in open(f):
        p = l.rstrip("\n").split("\t")
        if len(p) >= 3:
            rows.append((p[0], p[1], p[2].replace("rc=", ""), p[3] if len(p) > 3 else ""))
rows.sort()
sym = {"1": "VIOLATION (exit 1)", "0": "held (exit 0) — NOT caught", "2": "inconclusive (exit 2)"}
out = ["# Seeded changes x the check of their own property (quick tier, seed 1)\n",
       "Produced by `tools/diag.sh` (each change applied in a scratch worktree of /repo's HEAD, the harness pointed at it) and",
       "`tools/mkmatrix.py`. *observations* = violation observations not covered by a known finding: a small number means the",
       "catch rests on few cases (deterministic table entries — C10's nil sweep, C17's scenarios, one pair of the C14 sweep — or",
       "race reports, which are de-duplicated by entry-point pair).\n",
       "| seeded change | property | outcome of that property's check | observations |", "|---|---|---|---|"]
caught = 0
for m, p, rc, n in rows:
    caught += rc == "1"
    out.append(f"| `{m}` | {p} | {sym.get(rc, rc)} | {n} |")
out.append(f"\n{caught} of {len(rows)} seeded changes are reported as a VIOLATION by the check of their own property.")
open("/verif/seeded/MATRIX.md", "w").write("\n".join(out) + "\n")
print(out[-1])
