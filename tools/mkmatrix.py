#!/usr/bin/env python3
"""Builds seeded/MATRIX.md from the tsv files written by tools/matrix.sh."""
import sys, glob, collections
rows = collections.defaultdict(dict)
for f in sys.argv[1:]:
    for l in open(f):
        p = l.rstrip("\n").split("\t")
        if len(p) == 3:
            rows[p[0]][p[1]] = p[2].replace("rc=", "")
props = [f"C{i:02d}" for i in range(1, 21)]
out = ["# Cross matrix: seeded change x check (quick tier, seed 1)\n",
       "`V` = the check exits 1 with a VIOLATION line, `.` = held (exit 0), `?` = inconclusive (exit 2), blank = not run.",
       "Produced by `tools/matrix.sh` (each change applied in a scratch worktree of /repo HEAD) and `tools/mkmatrix.py`.\n",
       "| seeded \\ check | " + " | ".join(p[1:] for p in props) + " |", "|---|" + "---|" * len(props)]
sym = {"1": "V", "0": ".", "2": "?"}
own_caught = 0
for m in sorted(rows):
    cells = [sym.get(rows[m].get(p, ""), " ") for p in props]
    own = m[:3]
    if rows[m].get(own) == "1":
        own_caught += 1
    out.append(f"| `{m}` | " + " | ".join(cells) + " |")
out.append(f"\n{own_caught} of {len(rows)} seeded changes are caught by the check of their own property; "
           f"on average a change is caught by {sum(1 for m in rows for p in props if rows[m].get(p)=='1')/max(1,len(rows)):.1f} checks.")
open("/verif/seeded/MATRIX.md", "w").write("\n".join(out) + "\n")
print("\n".join(out[-3:]))
