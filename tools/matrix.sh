#!/bin/bash
# tools/matrix.sh <out.tsv> <seeded-id>...   — every given seeded change x every check (quick tier)
OUT=$1; shift
ALL="C01 C02 C03 C04 C05 C06 C07 C08 C09 C10 C11 C12 C13 C14 C15 C16 C17 C18 C19 C20"
for m in "$@"; do
  /verif/tools/try_mutant.sh /verif/seeded/$m quick $ALL 2>&1 | grep "^== " | while read -r _ p rc rest; do
    echo -e "$m\t$p\t$rc" >> "$OUT"
  done
done
