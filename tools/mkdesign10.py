#!/usr/bin/env python3
"""Regenerates DESIGN.md §10 (validation against seeded changes) from seeded/*/meta.json."""
import json, os
ROOT = os.path.dirname(os.path.dirname(os.path.abspath(__file__)))
rows = []
for d in sorted(os.listdir(os.path.join(ROOT, "seeded"))):
    mp = os.path.join(ROOT, "seeded", d, "meta.json")
    if os.path.isfile(mp):
        m = json.load(open(mp))
        rows.append((d, m["property"], m["change"], m["needs_to_manifest"], m["caught_by"]))
n = len(rows)
sec = f"""
---------------------------------------------------------------------------

## 10. Validation against seeded changes (which checks catch which changes)

{n} seeded changes are kept under `/verif/seeded/<id>/` (`patch.diff`, the
demonstration test as `*_test.go.txt`, the agent's own `agent_README.md`, and
`meta.json`). They were produced by fresh sub-agents in three rounds of twenty
that saw only the text of one property and their own scratch worktree of `/repo`
(rounds 2 and 3 additionally got one-line descriptions of the earlier changes
for that property, to force a different mechanism and clause), and a fourth
round of twelve (`A01-r4` … `A12-r4`) in which each agent got the texts of all
twenty properties and one *area of the source tree* to change, and a fifth
round of twelve (`K01-r5` … `K12-r5`) in which each agent got all twenty
properties and one *mechanism category* (aliasing of inputs, aliasing of
outputs, caching, boundary values, foreign method sets, multi-hop drift, partial
knowledge, positional wire data, multi-cause specifics, text encoding,
caller-skip arithmetic, errors as arguments), and a sixth round of twelve
(`G01-r6` … `G12-r6`) in which each agent got all twenty properties and one
*group of API functions* (leaf constructors, message wrappers, hint/detail,
issue links / telemetry, domains, barriers, markers, unwrap / As, encode / decode
entry points, formatting entry points, context tags / safe details,
http / grpc / oserror), and a seventh round of twelve (`T01-r7` … `T12-r7`) in
which each agent got all twenty properties and one *theme*: four on data races
and hidden shared state under read-only use (wrapper types, formatting engine,
encode path and identity, decoded representations), and one each on migrations,
opaque pass-through, the gRPC interceptors, barriers × identity, secondary /
multi-cause × verbose formatting, the Sentry report, the special-case formatting
of well-known foreign errors, and the encode / decode adapters, and an eighth
round of twelve (`F01-r8` … `F12-r8`) in which each agent got all twenty
properties and one *group of source files that no earlier change had touched*
(the top-level forwarders, `domains`, `oserror`, `issuelink` / `assert`,
`withstack`, `with_hint` / `with_detail`, `safedetails`, `secondary` /
`message.go`, the gRPC client interceptor and status helpers, `formatter.go` /
`safe_details.go` / `reportables.go`, `adapters.go`), and a ninth round of
twelve (`V01-r9` … `V12-r9`) in which each agent got all twenty properties, one
*group of packages* and the instruction to measure the statement coverage of the
repository's own tests first and to seed the defect in statements that no
existing test executes but the public API reaches. Two of those twelve were not
kept: `V08` (nested secondary errors dropped from `SafeDetails()`) does not
break a property as written — the strings stay in the Sentry message, and C12
says "report and/or safe details" — and `V06` (an empty stack trace yields a
`".":0` source location) led to the discovery of the genuine defect F19 (§7);
after its repair the change is behaviourally neutral on `/repo`'s HEAD (it was
confirmed, and caught by C15 `one-line-source/presence`, against the commit
before the fix). A tenth round of twelve (`R01-r10` … `R12-r10`) asked for
*refactoring-style* changes of 10–40 lines (recursion ↔ loop, a standard-library
helper instead of hand-written code, merging near-duplicates, hoisting, caching,
simplified conditions) that read as behaviour-preserving, and an eleventh round
of twelve (`P01-r11` … `P12-r11`) named one *particular clause* of a property that
no earlier change had gone for (four clauses of C07, two each of C02, C05 and
C19, one each of C12 and C03). A twelfth round of twelve (`Z01-r12` … `Z12-r12`)
gave each agent one or two properties and a one-line list of all 154 changes
seeded so far, asking for a mechanism, a code location *and* a triggering input
that differ from every one of them; a thirteenth round (`Y01-r13` … `Y12-r13`)
repeated that with the list grown to 166 and the properties paired differently,
and a fourteenth (`X01-r14` … `X12-r14`, list of 178) and a fifteenth
(`W01-r15` … `W12-r15`, list of 188) once more. A sixteenth round (`Q01-r16` …
`Q12-r16`, list of 200) prescribed the *way the change must manifest*: two
cooperating sites that each look fine alone (six agents), a multi-step sequence
or process history (five: second hop, re-encode, process-wide state such as
registries, caches and `sync.Map`s, the same value used twice), or a particular
goroutine interleaving under read-only use (one). Three of its agents arrived
independently at the same mechanism — a process-wide table that interns the type
mark of opaque layers per family name and so stamps the first-seen mark
extension on later ones (`Q02`, `Q04`, `Q12`; all three kept, they sit in
different functions and were aimed at different properties). A seventeenth round
of ten (`H01-r17` … `H10-r17`, list of 206) prescribed either an *unusual but
legal input* (extreme size or count, an encoding boundary, the same value
twice, boundary arguments) or a *fault or hostile peer at one particular point*
(a decoder that declines, a malformed wire field, a third-party method that
misbehaves). Two changes of the
fourteenth round were not kept because their triggers lie outside the inputs for
which the properties hold on the unchanged tree: `X02` needs a third-party type
whose own `%v` rendering differs from its `Error()` text (the library itself
renders such a cause through its `Format` method, so texts composed above it
already differ from `Error()`-based composition), `X05` needs redaction-marker
runes inside messages rendered with the plain verbs (the library replaces them by
`?` in several plain renderings, so `%v` is not `Error()` there to begin with;
DESIGN §2.2). Both were tried as new workload classes first; the alarms they raise
on the unchanged tree are why they were withdrawn. Nothing from `/verif` was ever
shown. Each was **confirmed independently** before being kept
(`tools/confirm_mutant.sh`): the patch applies to the clean tree, the library
builds with and without the `verif` tag, the demonstration passes without the
change and fails with it, and the pinned suite (the 244 `stable_pass` tests,
hooks off) still passes with the change. One candidate (C06, first attempt) was
rejected because it broke the pinned `TestDatadriven/opaque`. Checks are run
against a change with `tools/try_mutant.sh seeded/<id> quick <Cxx…>`, which
applies the patch in a scratch worktree of `/repo`'s HEAD outside `/repo` and
`/verif`, points the harness at it (`VERIF_REPO`), keeps the run's evidence out
of `/verif/evidence` (`VERIF_OUT`) and removes the worktree afterwards; `/repo`
itself is never touched. Several changes were found independently more than once
(the `decodeLeaf` off-by-one four times, `TrimRight` twice, the in-place
truncation in the report builder twice), which says something about where the
suite is thin.

Outcome: **every one of the {n} changes is reported as a VIOLATION by the quick
tier of the check of the property it was written against** (seed 1). About a
quarter of them were *missed* by the version of the monitor that existed when
they arrived (round 1: 3, round 2: 8, round 3: 7, round 4: 2, round 5: 3, round 6: 4, round 7: 7, round 8: 4, round 9: 6, round 10: 2, round 11: 1, round 12: 5, round 13: 6, round 14: 4, round 15: 5, round 16: 1 (and one caught on 1–5 observations only), round 17: 6 — the rounds that prescribed extreme inputs and faults at one point, which the depth-bounded generator and the well-behaved peers of the simulation did not produce — plus two
regression found by re-running every stored change against its own check after
the harness had changed — `tools/diag.sh`: `K07-r5` and `C20-r2` had been caught
through coincidences of the generator; the tool also prints how many violation
observations each catch rests on) and led to the
strengthenings listed below the table; none led to loosening a check.

| seeded | property | change | needs, in order to manifest | caught by (signatures) |
|---|---|---|---|---|
"""
esc = lambda s: s.replace("|", "\\|").replace("\n", " ")
for d, p, ch, needs, caught in rows:
    sec += f"| `{d}` | {p} | {esc(ch)} | {esc(needs)} | {esc(caught)} |\n"
sec += """
Monitors strengthened because a seeded change was missed (never loosened). The
recurring lesson is *observability of the workload*, not cleverer inference:
argument values at their boundaries (empty, zero, nil, multi-line), foreign
types with unusual method sets, and the ownership of what goes into and comes out
of the API.

* **all monitors that draw trees through `caseTree`** (C01, C02, C04, C08, C09,
  C10, C12, C15, C20) — *extreme but legal shapes* (`gen.Extreme`, §2.1): a chain
  of 32–40 wrappers (half of the time as a branch of a multi-cause node), a
  multi-cause node with 9–12 causes, a message longer than 4 KiB, the same error
  value as two causes of one node, a spine of 6–8 nested two-cause nodes; every
  24th PRNG-driven case (240th in the thorough tier; a quarter as many in the
  monitors that evaluate `Is` over all pairs of layers), the five shapes in turn
  by case ordinal, so that each occurs in every run. Added while round 17 was
  under way; `H01-r17` and `H10-r17` (a depth bound of 32 in the encoder) are caught
  through it and were out of reach before; `H05-r17` (indentation clamped 16
  levels below a multi-cause node) after the deep chain was also placed *under* a
  multi-cause node and the scheduling was changed from `case % 128` to the
  ordinal among the PRNG-driven cases (C09 has only ~900 of those in its quick
  tier).
* **all monitors** — the regular word list got runes whose UTF-8 encoding is next
  to that of the redaction markers (`‸` U+2038, `※` U+203B, `—`, `…`): legal text
  that a hand-written byte scanner for the markers may hit (`H02-r17`).
* **C09 / C10** — `repeatLayer`: one case in eight gets a second layer with the
  *same kind and the same arguments* as a wrapper already in the chain (the same
  domain, hint, tag set, code, prefix … twice), with 0–2 other annotations in
  between, and usually a layer above the pair that composes its own text from
  what is below (prefix, barrier, `%w` argument, join) (`Q07-r16`: "do not repeat a
  domain the layers below already carry" — the doubly annotated node's own
  `Error()` stays right, its parent's does not).
* **C04** — the unknowing-process simulation got a third mode (`Declining`, every
  third subset): the forgotten types are not without a decoder but have a *leaf
  decoder that declines* (public `RegisterLeafDecoder`, removed again afterwards) —
  an older version of the type, or a type that used to be a plain leaf; the
  library must fall back to the same opaque representation, the one that keeps
  multi-error causes included (`H04-r17`).
* **C08** — the error whose `Error()` method panics is now also the error *under
  examination*, bare and below library wrappers, with references that do not
  match: no panic, `IsAny` = disjunction of `Is`, reflexive (`H06-r17`; before, it
  was only ever the reference).
* **C18** — *same-operation storms*: after the mixed phase, five PRNG-chosen
  operations per case are run by all goroutines at once, 4 times back to back.
  `Q10-r16` (a lock-free package-level memo whose key and value are published by
  two separate atomic operations: nothing for the race detector, only the
  determinism monitor can see it) was caught on 1–5 observations per run before,
  5–11 after.
* **C19** — one case in eight is a chain of 10–28 annotations (mostly hints and
  details) whose texts come from a pool of 18 with repeats far apart (`H08-r17`:
  de-duplication that changes its data structure after 8 entries).
* **C20** — `c20statusWithDetails` (every 64th case): a handler error that already
  is a gRPC status error *and carries details of its own* that the intercepting
  client cannot unmarshal (standard-protobuf messages unknown to the gogo registry),
  compared between the plain and the intercepting client: Go type, status proto,
  text (`H09-r17`). The forwarded RPC got its own watchdog context, whose expiry is
  *inconclusive*: it shared the first RPC's 60 s context, which the observations in
  between can use up on a loaded machine (seen once, with a 20-level multi-cause
  spine whose rendering cost is exponential in the depth; a false alarm of the
  harness, fixed before it was ever committed).
* **C01 / C04** — one case in eight uses the string class `RegularBin`: regular
  strings with a byte sequence that is not valid UTF-8 in the middle of a word
  (`Z01-r12`; the fully hostile class cannot be used here: marker runes and
  doubled newlines legitimately change texts at opaque receivers).
* **C01** — one case in eight draws its strings from a tiny pool (equal texts
  in adjacent layers) for a chain of 2–9 annotation wrappers whose top
  annotation is applied twice in a row (`F07-r8`).
* **C01 / C09 / C13** — the new kind `operrboth` (a `*net.OpError` with both a
  local and a remote address), added after `T11-r7`, exposed a genuine defect on
  the unchanged tree (finding F18, §7); the kind has weight 0 and is placed only
  by three explicit probes.
* **C02** — the `markempty` kind: `Mark` with a reference whose text is empty
  (`T08-r7`); the unknowing processes of every second case do not link the
  payload message types either (see C04).
* **C03** — one case in ten ends its main chain in a third-party `SafeFormatter`
  leaf that prints nothing in short mode while its `Error()` carries unsafe text
  (`silentsafeleaf`, weight 0: its `%v` is not its `Error()`, so it is placed by
  C03 only, which asks nothing but the absence of the unsafe text) (`W02-r15`).
* **C03 / C06** — two more stages, *messages as other versions of the library
  would send them*: `from-old-peer` (barriers under their previous type name
  `*barriers.barrierError` with a plain-text message; `V05-r9`) and
  `payloads-dropped` (every structured payload except nested `EncodedError`s
  removed, wire messages and reportable strings kept; `V12-r9`); the kind
  `gstatusf`, `grpc/status.Errorf` with an unsafe argument (`V10-r9`).
* **C01 / C13** — `fmt.Errorf` with two `%w` now also comes with its message
  AFTER the operands, so that the text does not end with the last cause's text
  (`Y01-r13`).
* **C02** — `e` arriving from a sender on another platform (errno payloads
  rewritten as in C11), directly and relayed: every negative answer and every
  sentinel match is compared with the origin's; positive answers against locally
  built errno references carry no obligation, a foreign errno being deliberately
  not identified with the local one of the same name (`P05-r11`).
* **C02** — the kind `keymarkwrap`, a third-party wrapper with a type-key
  extension (`ErrorKeyMarker`) (`R01-r10`).
* **C04** — the unknowing-process simulation got a second mode (`NoProto`): the
  type URLs of the payloads of the forgotten types are made unresolvable on the
  way in and restored on the way out, as for a binary built without the package
  that defines the type (`T06-r7`); one `elidewrap` node in three overrides its cause's message with the
  *empty* string (`C04-r2`).
* **C07** — one case in twelve puts `HandledWithMessage(e, "")`, an override
  with the EMPTY message, at the root (`W04-r15`); reachability also through every layer's own `Unwrap()` / `Cause()`
  methods and the standard library's walk; `Unwrap()` must agree with `Cause()`
  and with the visible cause (`C07-r2`); the `newfew` kind, `Newf("… %v … %w",
  hidden, cause)`: the `%w` operand is not the first error argument (`C07-r3`).
* **C08** — the reference pool's perturbations got "one type-key extension
  emptied" (`errors.Domain("")`, an empty key marker) (`X08-r14`); one case in ten
  ends its main chain in the sometimes-leaf-sometimes-wrapper
  type with a text `a: b`, and the reference pool gets the same tree with that leaf
  replaced by wrapper[`a`](leaf[`b`]): equal texts, and every layer's type chain is
  the candidate's strictly extended (`C08`, whose catch rested on 2 observations);
  fresh "twin" objects equivalent to the sentinels in the reference
  pool, and `Mark(e, r)` with a reference that `e` already matches (`C08-r3`);
  `IsAny` is called with a spread slice that has a nil in the middle, the slice is
  compared before / after and used again (`A07-r4`).
* **C09** — issue links with a detail but no URL, and a URL but no detail
  (`C09-r2`).
* **C10** — format-only kinds: `Newf` / `Wrapf` / `WithMessagef` with an escaped
  `%` and no argument (`A12-r4`); the nil sweep also runs 23 "rich argument" paths (tagged context,
  error-typed format arguments, non-empty link, package domain, `codes.OK` /
  `Unknown`, empty message) (`C10-r3`); `Newf` with `%[1]w` instead of `%w`
  (`Y07-r13`); the kind `wrapfempty`, `Wrapf(err, "%s", "")`, whose prefix is not
  literally empty but formats to the empty string (`W05-r15`); the `handledmsgf0` kind,
  `HandledWithMessagef` with an escaped `%` and no argument, which C06 and C07
  use as well (`G06-r6`).
* **C11** — the `tagsafe` kind: `Safe()`, nil and int tag values (`C11`); the
  `unimpld` kind: unimplemented error whose link has only a detail (`C11-r2`);
  the zero code value, `codes.OK` / HTTP 0 (`C11-r3`); the `domainnone` kind,
  `WithDomain(e, NoDomain)` (`G05-r6`); the simulated foreign sender of an errno
  varies (another OS, the same OS on another CPU architecture, unheard of) and
  may use another number for the same error, and the first receiver is compared
  with the origin (text, predicates, accessors) (`T12-r7`); one case in ten
  combines an errno (optionally under an os wrapper) with a `Mark` reference or
  a `Join` branch that is one of the os sentinels, so that an OS predicate has
  two sources (`F04-r8`); the kind `domainraw`, a domain declared directly from
  the exported string type (no `error domain:` prefix, possibly empty; newlines
  replaced, since such a string doubles unescaped as the type-mark extension)
  (`V09-r9`); the kind `withstackdeep`, a stack layer without frames (`V06`,
  which exposed F19); one case in eight uses the `RegularBin` strings (`Y08-r13`).
* **C04** — a message from a NEWER sender: the wrappers carry a message-type value
  this version does not define (2, 7, −1); a process that knows none of the types
  must hand it on as received (`Y04-r13`).
* **C05** — the registry sweep's reportable-string sets got stack-shaped and
  malformed members (a printed stack, one with a blank line inside, without file
  rows, with a non-numeric line, with a generic instantiation, bare newlines /
  tab / colon) (`Z04-r12`, first caught by two byte-fuzz observations only).
* **C12** — the kind `safedetails0`, `WithSafeDetails` with an EMPTY format and
  arguments (`Z03-r12`); every stage is observed twice: reporting must not consume what it
  reports (`C12-r2`); one case in eight ends in a third-party leaf that declares
  a safe string through `SafeDetails()` and also has a `StackTrace()` method
  (`F11-r8`).
* **C13** — the builder overwrites its own slice after spreading it into `Join`
  (`C13-r2`); the `joinbare` kind, the sub-package's `join.Join` without a stack
  layer, so that joins nest directly (`T09-r7`); `%+v` of the *decoded* error
  (printed directly for library and opaque outermost types) must have an entry
  per visible layer at every stage (`K07-r5`, regression). The builder yields one
  object for one descriptor node, and one multi-cause node in eight gets the SAME
  node twice in adjacent positions, `Join(e, e)` (`W12-r15`).
* **C09** — `*net.OpError` with only a local address and with no address
  (`operrsrc`, `operrnone`) (`T11-r7`); the kind `oldfmtelide`, a foreign wrapper
  with an old-style `Format` method whose `Error()` replaces the cause's text
  (`V02-r9`); the kind `safemsgwrap`, a third-party `redact.SafeMessager` wrapper
  that overrides its cause's message — never the outermost layer of a tree or of
  a hidden error, where the redact package itself short-cuts it (`R02-r10`).
* **C14** — a leaf and a *wrapper* type with their own `As` methods; the wrapper
  declines every target but one, and the search must go on below it (`C14-r3`).
  A value-typed, non-comparable third-party wrapper (`ncwrap`), and
  `UnwrapAll` / `Cause` compared with the end of the `UnwrapOnce` walk on every
  chain, not only on chains of `Cause()` wrappers (`G08-r6`). Every library layer
  counts as a `Cause()` wrapper whatever the object at hand says (`F08-r8`). The
  kind `multiis`, a third-party multi-cause type with its own `Is` method
  (`Z07-r12`; C08 uses it too).
* **C15** — the error's domain (the exception module) is compared with the
  model's domain, not only with `GetDomain` of the same object (`G05-r6`); the `file:line` prefix is predicted from the per-layer stacks
  instead of from `GetOneLineSource` itself, and a third-party style leaf with
  both `StackTrace()` and `SafeDetails()` is placed at the end of the main chain
  in one case in six (`C15-r2`).
  The third-party stack leaf records, in half of its placements, a stack of exactly
  one frame (`Z10-r12`).
* **C16** — 22 argument-value variants (`C16`); `GetOneLineSource` must give the
  same answer under another stack and under foreign Cause-only / Unwrap-only
  wrappers (`C16-r2`); the slice returned by `StackTrace()` is scribbled on before
  re-observing (`C16-r3`); call sites that live, through `//line` directives, in
  a source file whose path contains a colon (`K11-r5`); call paths with 40 and
  130 extra frames of recursion below them (`F06-r8`).
* **C17** — the versions' leaf types have a custom leaf encoder (registered in
  the documented order) whose wire message differs from `Error()` and whose
  payload the decoder insists on (`C17-r3`); between two registrations each
  version uses the keys of the types registered so far, as `init()` code does
  (`K03-r5`: a type-details cache with incomplete invalidation); a move that
  changes only the import path — package `verifharness/migold` declares
  `package mig` with the same type name (`Y10-r13`); the very same migration
  declared twice must be rejected like a conflicting one (`W09-r15`).
* **C18** — the shared value stays *cold*: the "executed alone" reference is
  computed on a twin built from the same descriptor at the same call site, and
  again on the shared value afterwards (`C18`); every operation is also run as
  the *first* call on its own fresh identical value and compared with the
  reference (a read-only call must not depend on, or leave behind, state from
  other read-only calls); the trees get up to three annotation wrappers on top;
  a new operation `IsAny` with references that do not match at the top, so that
  the search walks the whole chain; the builder hands `WithTelemetry` a private
  copy of the keys — the descriptor's slice was shared by every build and by
  the model, which hid an in-place sort (`T01-r7`, `T03-r7`). The first case each
  child process handles is a *cold-process* case: the goroutines are released
  before anything in that process has called into the library for reading, and the
  reference is computed afterwards — process-wide state that is filled on first
  use is then raced for by the very first calls (`Z11-r12`; 16 such cases per
  quick run). In a cold-process case every operation first gets a *phase* of its
  own in which all goroutines are released together to make the process's first
  call of that operation at the same moment — the final regression run had missed
  `Z11-r12` once when the first calls were spread over the goroutines' random
  orders (the race detector's access history is bounded). The kind `protofailleaf`, a leaf that announces a protobuf payload
  which cannot be marshalled (`X11-r14`); the library's warning sink is redirected
  into a counter.
* **C19** — a decoded stage: the accessor model must also hold on the error
  decoded at a knowing process (`C19-r2`); the slices returned by
  `GetTelemetryKeys` / `GetAllHints` / `GetAllDetails` / `GetAllIssueLinks` are
  scribbled on and the error observed again (`K02-r5`); third-party leaf and
  wrapper types that implement `ErrorHinter` / `ErrorDetailer` themselves
  (`hdleaf`, `hdwrap`, registered so that they survive the network) (`G03-r6`);
  a word with redaction-marker runes in the string pool (`X12-r14`);
  one case in ten has two gRPC code layers, the outer one often `Unknown`, the
  "nothing attached" default; C20 does the same (`C20-r2`, regression), and in one
  case in ten lengthens strings to several hundred bytes of multi-byte runes
  (`C20-r3`, whose catch rested on 4 observations). C20's in-memory set-up got a
  *forwarding service* (server interceptor → plain client → server interceptor):
  what its intercepting client receives is compared with what the client next to
  the origin receives (`Y12-r13`). The two interceptors are also composed as plain
  functions, with the server-side context live, cancelled or past its deadline
  when the handler returns (`X10-r14`).

Independently of the seeded changes, `tools/coverage.sh` measures which statements
of the library the monitors' workloads execute (the harness built with
`-cover -coverpkg=github.com/cockroachdb/errors/...`, every monitor run once at
the quick tier, counters merged): **97.0 % of the library's statements** (the
repository's own suite, with its toolchain failures, leaves far more uncovered —
which is where the round-9 agents put their changes). The first measurement
(95.0 %) pointed at workload gaps that were then closed: `NotInDomain` /
`EnsureNotInDomain` (now in the observation record and checked against
`GetDomain` in C19), `OpaqueErrno.Temporary`, `safedetails.Redact` (now one of
C03's PII-free outputs), `report.PrintStackTrace`, the top-level `Register*`
forwarders (the harness types now register through them), `grpc/status.Code`
(C20), `As` on API misuse (C14: panics exactly when the standard `errors.As`
does), `Is` with an error whose `Error()` panics (C08), `FormatError` handing an
error value to the printer (kind `fmtargleaf`), annotations with nothing to
annotate (C10). What is still not executed is listed in
`coverage/uncovered.txt` (committed; regenerate with the tool): the
`ReportError` path that talks to a Sentry hub, `SetWarningFn`, marshalling
failures of a payload, the `%#v` / `GoStringer` branch, the panic for a handler
error whose details cannot be marshalled, and a few defensive branches. (The
`redact.SafeMessager` backward-compatibility branch was first tried with a leaf
kind and dropped — the redact package itself short-cuts such values when they
are handed to it directly, so none of the formatting properties is stated for
them — and is now exercised by the `safemsgwrap` kind, which is never the
outermost layer.) No monitor says anything about those.

The outcome of the last regression run — every seeded change against the check
of its own property on the final harness, with the number of violation
observations each catch rests on — is in `seeded/MATRIX.md` (`tools/diag.sh`,
`tools/mkmatrix.py`).
"""
p = os.path.join(ROOT, "DESIGN.md")
s = open(p).read()
mark = "\n---------------------------------------------------------------------------\n\n## 10."
if mark in s:
    s = s[:s.index(mark)]
open(p, "w").write(s.rstrip("\n") + "\n" + sec)
print("DESIGN §10 regenerated with", n, "seeded changes")
