#!/bin/bash
# tools/diag.sh <out.tsv> <seeded-id>...  — every given seeded change x the check of ITS OWN property (quick tier):
# the regression test of the monitors after the harness changed. Columns: id, property, rc, number of
# violation observations not covered by a known finding (a small number = a catch that hangs on few cases).
OUT=$1; shift
for m in "$@"; do
  p=$(python3 -c "import json;print(json.load(open('/verif/seeded/$m/meta.json'))['property'])")
  /verif/tools/try_mutant.sh /verif/seeded/$m quick $p 2>&1 | grep "^== " | while read -r _ q rc rest; do
    n=$(echo "$rest" | sed -n 's/.* \([0-9]*\) violation observations.*/\1/p')
    echo -e "$m\t$q\t$rc\t$n" >> "$OUT"
  done
done
