#!/bin/bash
# tools/diag.sh <out.tsv> <seeded-id>...  — every given seeded change x the check of ITS OWN property (quick tier):
# the regression test of the monitors after the harness changed.
OUT=$1; shift
for m in "$@"; do
  p=$(python3 -c "import json;print(json.load(open('/verif/seeded/$m/meta.json'))['property'])")
  /verif/tools/try_mutant.sh /verif/seeded/$m quick $p 2>&1 | grep "^== " | while read -r _ q rc rest; do
    echo -e "$m\t$q\t$rc" >> "$OUT"
  done
done
