#!/bin/bash
# C09 monitor B: re-render the repository's curated leaf x wrapper formatting
# corpus with the current /repo working tree and compare with the vetted
# reference renderings in /verif/corpus/format.
#   run.sh <tier> <seed>     run the comparison, merge counts into evidence/C09.json
#   run.sh --setup           warm the build cache
set -u
ROOT=$(cd "$(dirname "$0")/.." && pwd)
export GOFLAGS=-mod=mod GOPROXY=off GOSUMDB=off GOTOOLCHAIN=local
BASE=${TMPDIR:-/var/tmp}/verif-corpus-scratch$( [ "${VERIF_REPO:-/repo}" != /repo ] && echo "-$(echo "$VERIF_REPO" | tr / _)" )
mkdir -p "$BASE"
exec 9>"$BASE/.lock"
flock 9
S="$BASE/repo"
cleanup() { rm -rf "$S" "$BASE/out.txt"; }
trap cleanup EXIT
rm -rf "$S"
mkdir -p "$S"
rsync -a --exclude .git --exclude MUTANT --exclude "mutant_*" "${VERIF_REPO:-/repo}/" "$S/"
rm -rf "$S/fmttests/testdata/format"
cp -r "$ROOT/corpus/format" "$S/fmttests/testdata/format"
start=$(date +%s.%N)
(cd "$S/fmttests" && go test -vet=off -count=1 -run 'TestDatadriven' . -rewrite) >"$BASE/out.txt" 2>&1
rc=$?
if [ "${1:-}" = "--setup" ]; then
  exit 0
fi
python3 "$ROOT/corpus/compare.py" "${VERIF_OUT:-$ROOT}" "$ROOT" "$S/fmttests/testdata/format" "$rc" "$BASE/out.txt" "${1:-quick}" "${2:-1}" "$start"
