#!/usr/bin/env python3
"""Normalise and compare re-rendered corpus files with the vetted references; merge counts into evidence/C09.json."""
import json, os, re, sys, time

root, vroot, outdir, rc, logf, tier, seed, start = sys.argv[1], sys.argv[2], sys.argv[3], int(sys.argv[4]), sys.argv[5], sys.argv[6], int(sys.argv[7]), float(sys.argv[8])
# root = where evidence/ and replay/ go; vroot = /verif (reference renderings)
refdir = os.path.join(vroot, "corpus", "format")

CLOSURE = re.compile(r"fmttests\.(glob\.\.\.funcNN\.\.\.|init\.func\d+(\.\d+)*|glob\.\.func\d+(\.\d+)*)")

CLOSURE2 = re.compile(r"\(github\.com/cockroachdb/errors/fmttests\.(glob\.|init)\)\.\.\.funcNN\.\.\.")

def norm(line):
    # toolchain closure naming: go <=1.20 "glob..funcN", newer "init.funcN"; the
    # repository's driver rewrites the former to "glob...funcNN..." and, in
    # quoted stack dumps, its regexp also swallows the "\n" that follows.
    line = CLOSURE2.sub("(github.com/cockroachdb/errors/fmttests.<closure>)", line)
    line = CLOSURE.sub("fmttests.<closure>", line)
    line = line.replace("fmttests.<closure>\\n\\<path>", "fmttests.<closure>\\<path>")
    return line.rstrip("\n")

def sections(lines):
    """yield (case header, section, line) for signature building"""
    case, sec = "", ""
    for l in lines:
        if l.startswith("run"):
            case = ""
        elif case == "" and l.strip() and not l.startswith(("require", "accept", "----", "==", "run")):
            case = l.strip()
        if l.startswith("== "):
            sec = l[3:].strip()
        yield case, sec, l

violations = []
files = sorted(os.listdir(refdir))
total_lines = 0
cases = 0
samples = []
for f in files:
    ref = [norm(l) for l in open(os.path.join(refdir, f), encoding="utf-8", errors="surrogateescape")]
    try:
        new = [norm(l) for l in open(os.path.join(outdir, f), encoding="utf-8", errors="surrogateescape")]
    except FileNotFoundError:
        violations.append((f, "", "", "file missing after re-rendering", ""))
        continue
    total_lines += len(ref)
    cases += sum(1 for l in ref if l.startswith("run"))
    if ref == new:
        continue
    # locate the first difference and its (case, section)
    ctx = list(sections(ref))
    n = min(len(ref), len(new))
    i = 0
    while i < n and ref[i] == new[i]:
        i += 1
    case, sec, _ = ctx[min(i, len(ctx) - 1)] if ctx else ("", "", "")
    a = ref[i] if i < len(ref) else "<eof>"
    b = new[i] if i < len(new) else "<eof>"
    violations.append((f, case, sec, f"line {i+1}: reference {a!r} vs re-rendered {b!r}", "\n".join(new[max(0, i-15):i+15])))
if files:
    ref0 = [l.rstrip("\n") for l in open(os.path.join(refdir, files[0]), encoding="utf-8", errors="surrogateescape")][:12]
    samples.append({"file": files[0], "first_lines": ref0})

log = open(logf, encoding="utf-8", errors="replace").read()
driver_failed = rc != 0
if driver_failed and not violations:
    violations.append(("(driver)", "", "", "the repository's datadriven driver failed while re-rendering (an irregularity it does not accept)", log[-3000:]))

os.makedirs(os.path.join(root, "replay"), exist_ok=True)
code = 0
for (f, case, sec, what, ctxt) in violations[:20]:
    sig = re.sub(r"[^A-Za-z0-9.-]+", "_", f"corpus/{f}/{case}/{sec}")[:120]
    path = os.path.join(root, "replay", f"C09-corpus-{sig}.txt")
    with open(path, "w", encoding="utf-8", errors="surrogateescape") as fh:
        fh.write(f"file {f}\ncase {case}\nsection {sec}\n{what}\n\n--- re-rendered context ---\n{ctxt}\n\n--- driver log tail ---\n{log[-2000:]}\n")
    print(f"VIOLATION property=C09 replay={path}")
    print(f"  sig=corpus/{f}/{case}/{sec}\n  {what}")
    code = 1
print(f"C09 corpus: {'violated' if code else 'held'} — {len(files)} files, {cases} leaf x wrapper cases, {total_lines} reference lines compared, driver exit {rc}")

# merge into the evidence file written by monitor A
evp = os.path.join(root, "evidence", "C09.json")
try:
    ev = json.load(open(evp))
except Exception:
    ev = {"property_id": "C09", "tier": tier, "seed": seed, "level": "exploration",
          "coverage": {"evaluations": 0, "distinct_nontrivial": 0, "rule": "monitor A did not write evidence", "samples": []}, "wall_s": 0.0}
ev["coverage"]["corpus"] = {"files": len(files), "cases": cases, "reference_lines_compared": total_lines, "differing_files": len(violations),
                            "driver_exit": rc, "samples": samples,
                            "normalisation": "closure naming glob..funcN / init.funcN unified; paths and line numbers are normalised by the repository's own driver"}
ev["coverage"]["evaluations"] = ev["coverage"].get("evaluations", 0) + cases
ev["violations"] = ev.get("violations", 0) + (1 if code else 0)
ev["wall_s"] = ev.get("wall_s", 0.0) + (time.time() - start)
json.dump(ev, open(evp, "w"), indent=1)
sys.exit(code)
